package mon

import (
	"context"
	"fmt"
	"regexp"
	"strings"

	"diagonal.works/b6"
	"diagonal.works/b6/api"
	"diagonal.works/b6/api/functions"
	"diagonal.works/b6/ingest"
	"verif/internal/core"
)

// C21 The VM evaluates programs as the language defines.
//
// Oracle: the environment-passing interpreter of c21_lang.go (lexical
// closures, call-by-value, left to right), which never looks at api/vm.go.
// Each generated program is evaluated by both; value vs value, error vs
// arity/type error, and panics are compared.

var c21world = ingest.NewBasicMutableWorld()

func c21context() *api.Context {
	return &api.Context{
		World:           c21world,
		FunctionSymbols: c21symbols,
		Adaptors:        functions.Adaptors(),
		Context:         context.Background(),
	}
}

type c21vmResult struct {
	value    interface{}
	err      error
	panicked bool
	class    string
	frame    string
	stack    string
}

func c21runVM(e b6.Expression) c21vmResult {
	var res c21vmResult
	res.panicked, res.class, res.frame, res.stack = core.Protect(func() {
		res.value, res.err = api.Evaluate(e, c21context())
	})
	return res
}

func (r c21vmResult) String() string {
	switch {
	case r.panicked:
		return "PANIC " + r.class + " @" + r.frame
	case r.err != nil:
		return "error: " + r.err.Error()
	}
	return c21renderVM(r.value)
}

var c21quotedRe = regexp.MustCompile(`"[^"]*"`)
var c21numRe = regexp.MustCompile(`[0-9]+`)

// class of a VM error message: quoted text and numbers removed
func c21errClass(msg string) string {
	if i := strings.IndexByte(msg, '\n'); i >= 0 {
		msg = msg[:i]
	}
	msg = c21quotedRe.ReplaceAllString(msg, "Q")
	msg = c21numRe.ReplaceAllString(msg, "N")
	// drop a leading "name: " (the library function the message is about)
	if i := strings.Index(msg, ": "); i > 0 && i < 12 && !strings.Contains(msg[:i], " ") {
		msg = msg[i+2:]
	}
	msg = strings.Map(func(r rune) rune {
		switch {
		case r >= 'a' && r <= 'z', r >= 'A' && r <= 'Z', r >= '0' && r <= '9', r == '.', r == '-':
			return r
		}
		return '_'
	}, msg)
	if len(msg) > 60 {
		msg = msg[:60]
	}
	return msg
}

// the most specific mechanism the reference evaluation went through: the
// class of program a wrong result is attributed to.
func c21mechanism(ev map[string]int) string {
	for _, k := range []string{"partial_of_partial", "partial_completed", "partial_once", "partial_zero_args", "call_of_parameter",
		"call_lambda_literal", "call_of_call", "go_returns_function", "go_calls_adaptor", "go_calls_callable",
		"shadowing", "shadowing_global", "nested_closure_applied", "closure_applied", "variadic_call", "pipeline"} {
		if ev[k] > 0 {
			return k
		}
	}
	return "plain-call"
}

// programs of the "closures are not lexical" class (DESIGN.md section 11; the
// defect was repaired in the worktree, see known-findings.d/C21.json): the
// same lambda activated twice while a closure over the first activation is
// still alive, re-entered, or outlived by a closure. They stay in the case
// list as labelled sub-cases, and a mismatch on a program that reads a slot
// another activation has overwritten keeps its own signature
// (closure-not-lexical:*), so that a regression is named for what it is.
func c21hazardTemplate(r *core.R) (*c21node, string) {
	k1, k2, k3 := r.Range(1, 9), r.Range(10, 19), r.Range(20, 90)
	S := c21SymN
	I := c21IntN
	switch r.Intn(5) {
	case 4:
		// {l -> app2 l l k1} {f, x -> sub (app2 f {g, y -> y} (add x k2)) x}: a
		// top-level lambda is re-entered through its own parameter
		id2 := c21LamN([]string{"g", "y"}, S("y"))
		l := c21LamN([]string{"f", "x"}, c21CallN(S("sub"), c21CallN(S("app2"), S("f"), id2, c21CallN(S("add"), S("x"), I(k2))), S("x")))
		return c21CallN(c21LamN([]string{"l"}, c21CallN(S("app2"), S("l"), S("l"), I(k1))), l), "top-level-lambda-re-entered"
	case 0:
		// {mk -> both (apply mk k1) (apply mk k2) k3} {x -> {y -> sub x y}}
		mk := c21LamN([]string{"x"}, c21LamN([]string{"y"}, c21CallN(S("sub"), S("x"), S("y"))))
		body := c21CallN(S("both"), c21CallN(S("apply"), S("mk"), I(k1)), c21CallN(S("apply"), S("mk"), I(k2)), I(k3))
		return c21CallN(c21LamN([]string{"mk"}, body), mk), "two-closures-of-one-lambda"
	case 1:
		// {l -> app2 l k1 {y -> app2 l (add y k2) {z -> z}}} {n, f -> sub (apply f n) n}
		l := c21LamN([]string{"n", "f"}, c21CallN(S("sub"), c21CallN(S("apply"), S("f"), S("n")), S("n")))
		inner := c21LamN([]string{"y"}, c21CallN(S("app2"), S("l"), c21CallN(S("add"), S("y"), I(k2)), c21LamN([]string{"z"}, S("z"))))
		body := c21CallN(S("app2"), S("l"), I(k1), inner)
		return c21CallN(S("apply"), c21LamN([]string{"l"}, body), l), "lambda-re-entered"
	case 2:
		// ((({x, y -> {z -> sub x z}} k1) k2) k3): the closure outlives the
		// partial call that bound x
		l := c21LamN([]string{"x", "y"}, c21LamN([]string{"z"}, c21CallN(S("sub"), S("x"), S("z"))))
		return c21CallN(c21CallN(c21CallN(l, I(k1)), I(k2)), I(k3)), "closure-outlives-partial-call"
	default:
		// apply2 (apply mk k1) (apply mk k2) k3 with mk bound once
		mk := c21LamN([]string{"x"}, c21LamN([]string{"y"}, c21CallN(S("lin3"), S("x"), S("y"), I(0))))
		body := c21CallN(S("apply2"), c21CallN(S("apply"), S("mk"), I(k1)), c21CallN(S("apply"), S("mk"), I(k2)), I(k3))
		return c21CallN(S("apply"), c21LamN([]string{"mk"}, body), mk), "two-closures-of-one-lambda"
	}
}

// a lambda with about as many parameters as the VM has argument slots
func c21manyParams(r *core.R) *c21node {
	n := r.Range(29, 35)
	ps := make([]string, n)
	args := make([]*c21node, n)
	for i := range ps {
		ps[i] = fmt.Sprintf("p%d", i)
		args[i] = c21IntN(i + 1)
	}
	body := c21CallN(c21SymN("sub"), c21SymN(ps[r.Intn(n)]), c21SymN(ps[n-1]))
	return c21CallN(c21LamN(ps, body), args...)
}

func c21generate(r *core.R, queries bool, eta float64) (*c21node, *c21gen) {
	for try := 0; try < 12; try++ {
		g := &c21gen{r: r.Fork(), maxNodes: 22, queries: queries, eta: eta, shapes: map[string]int{}}
		if g.r.Chance(0.3) {
			g.inject = 1
		}
		var t *c21ty
		switch x := g.r.Intn(10); {
		case x < 6:
			t = c21tInt
		case x < 8:
			t = c21tPair(c21tInt, c21tInt)
		case x < 9 && queries:
			t = c21tQry
		default:
			t = g.randTy(1)
		}
		d := g.r.Range(2, 4)
		if try >= 6 {
			d = 2
			g.maxNodes = 12
		}
		n := g.callTo(nil, t, d)
		if n == nil {
			n = g.gen(nil, t, d)
		}
		if n.count() <= 30 && n.depth() <= 8 && g.nparams <= 24 {
			return n, g
		}
	}
	g := &c21gen{r: r.Fork(), shapes: map[string]int{"fallback": 1}}
	return c21CallN(c21SymN("sub"), c21IntN(r.Range(0, 99)), c21IntN(r.Range(0, 99))), g
}

func init() {
	core.Register(&core.Monitor{
		ID:        "C21",
		Title:     "The VM evaluates programs as the language defines",
		Technique: "differential monitor: api.Evaluate on constructed b6.Expression trees vs an environment-passing reference interpreter with lexical closures",
		Rule: "case = one program generated type-directed over a harness-registered library (add sub mul neg lin3 seven sum pair first second apply app2 apply2 both twice compose applyi): " +
			"calls whose function is a symbol, a parameter, a lambda literal or a call; nested lambdas with shadowing; partial application once and twice; pipelines; " +
			"30% of programs get one injected fault (extra/dropped/wrongly typed/swapped argument, call of a non-function); <= 30 nodes, nesting depth <= 8. " +
			"6% of cases are labelled closure-hazard templates, 1% lambdas with 29..35 parameters. distinct = distinct program text; " +
			"non-trivial = the reference evaluation applied at least one closure or created a partial application",
		Assumptions: []string{
			"the reference interpreter in c21_lang.go is the language definition (lexical scope, call-by-value, partial application binds trailing parameters)",
			"only error-vs-value is compared for failing programs, not the message",
			"a zero-argument call of a non-function value is never generated (the description does not define it)",
		},
		Quick: 12000, Thorough: 1000000,
		Required: []string{"call_lambda_literal", "call_of_call", "call_of_parameter", "pipeline", "partial_once", "partial_of_partial", "partial_completed",
			"partial_zero_args", "shadowing", "shadowing_global", "nested_closure_applied", "over_application", "variadic_call",
			"go_calls_callable", "go_calls_adaptor", "go_returns_function", "agree_value", "agree_error_arity", "agree_error_type",
			"agree_function", "hazard_template_cases", "many_parameters_cases"},
		Run: func(c *core.Ctx) {
			r := c.R
			var prog *c21node
			label := "random"
			sub := r.Intn(100)
			switch {
			case sub < 6:
				prog, label = c21hazardTemplate(r)
				label = "hazard:" + label
				c.Count("hazard_template_cases")
			case sub < 7:
				prog = c21manyParams(r)
				label = "many-parameters"
				c.Count("many_parameters_cases")
			default:
				var g *c21gen
				prog, g = c21generate(r, false, 0)
				for k, v := range g.shapes {
					c.Add("gen_"+k, v)
				}
			}
			text := prog.String()
			c.Key("%s", text)
			c.Max("nodes", int64(prog.count()))
			c.Max("depth", int64(prog.depth()))
			if c.Index < 3 {
				c.Sample(map[string]any{"label": label, "program": text})
			}

			// reference
			in := c21newInterp(c21globals)
			want, werr := in.run(prog)
			if werr != nil && werr.class == "fuel" {
				c.Count("reference_out_of_fuel")
				return
			}
			if werr != nil && werr.class == "unbound" {
				c.Inconclusive("generator produced an unbound symbol: " + text)
				return
			}
			for k, v := range in.ev {
				c.Add(k, v)
			}
			if in.ev["closure_applied"] > 0 || in.ev["partial_once"] > 0 || in.ev["partial_of_partial"] > 0 {
				c.Nontrivial()
			}
			if in.hazards > 0 {
				c.Count("programs_reading_a_rebound_slot")
			}

			// the VM
			got := c21runVM(prog.expr())
			witness := map[string]any{"label": label, "program": text, "b6": prog.expr().String(), "vm": got.String()}
			if werr != nil {
				witness["reference"] = werr.String()
			} else {
				witness["reference"] = c21render(want)
			}
			// a mismatch on a program that reads a parameter slot which another
			// activation has overwritten in the VM's model is attributed to the
			// known design-level defect, with its own signatures.
			violate := func(sig string, format string, args ...any) {
				if in.hazards > 0 {
					kind := sig
					if i := strings.IndexAny(kind, ":@"); i > 0 {
						kind = kind[:i]
					}
					sig = "closure-not-lexical:" + kind
				}
				c.Violate(sig, witness, format, args...)
			}
			switch {
			case got.panicked:
				witness["stack"] = got.stack
				violate("panic@"+got.frame+":"+got.class, "%s [%s] panicked in the VM: %s; the reference gives %v", text, label, got.class, witness["reference"])
			case werr != nil && got.err != nil:
				c.Count("agree_error_" + werr.class)
			case werr != nil:
				violate("no-error:"+werr.class+"-error:"+c21mechanism(in.ev), "%s [%s]: the reference reports %s, the VM returned %s", text, label, werr, got)
			case got.err != nil:
				if label == "many-parameters" && strings.Contains(got.err.Error(), "Can't use more than") {
					c.Count("slot_limit_reported")
					return
				}
				violate("spurious-error:"+c21errClass(got.err.Error()), "%s [%s]: the reference gives %s, the VM failed: %s", text, label, c21render(want), got.err)
			default:
				w, g := c21render(want), c21renderVM(got.value)
				if w != g {
					violate("wrong-value:"+c21mechanism(in.ev), "%s [%s]: the reference gives %s, the VM %s", text, label, w, g)
				} else if w == "<fn>" {
					c.Count("agree_function")
					if wf, ok := want.(*c21fnV); ok {
						if cf, ok := got.value.(api.Callable); ok && cf.NumArgs() != wf.arity() {
							violate("wrong-arity-of-result:"+c21mechanism(in.ev), "%s [%s]: the result is a function of %d parameters, the VM's has %d", text, label, wf.arity(), cf.NumArgs())
						}
					}
				} else {
					c.Count("agree_value")
					if in.hazards > 0 {
						c.Count("rebound_slot_harmless")
					}
				}
			}
		},
	})
}
