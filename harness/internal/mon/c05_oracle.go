package mon

import (
	"diagonal.works/b6"
	"github.com/golang/geo/s2"
)

// Geometric oracle of C05: own code on top of S2 primitives only
// (Loop.ContainsPoint, CrossingSign, Cell.ContainsPoint / BoundaryDistance and
// the monitor's own point-to-segment distance). Every atomic test is
// three-valued: it answers "unsure" when the configuration lies within
// c05Eps of the decision boundary; results are combined with Kleene logic and
// an unsure overall result means that the pair is skipped and counted.

const c05Eps = 1e-9 // rad

type c05Tri int8

const (
	c05F c05Tri = -1
	c05U c05Tri = 0
	c05T c05Tri = 1
	// c05Either: exact geometry says "intersects" (or cannot tell) while the
	// documented vertex-inside approximation says "no": both answers are allowed.
	c05Either c05Tri = 2
)

func (t c05Tri) String() string {
	switch t {
	case c05T:
		return "true"
	case c05F:
		return "false"
	case c05Either:
		return "either"
	}
	return "unsure"
}

func c05Or(a, b c05Tri) c05Tri {
	if a == c05T || b == c05T {
		return c05T
	}
	if a == c05U || b == c05U {
		return c05U
	}
	return c05F
}

func c05Bool(b bool) c05Tri {
	if b {
		return c05T
	}
	return c05F
}

func c05LE(d, r float64) c05Tri {
	if d <= r-c05Eps {
		return c05T
	}
	if d >= r+c05Eps {
		return c05F
	}
	return c05U
}

// oracle-side geometry
type c05GPoly struct {
	loops []*s2.Loop // each normalised to enclose at most a hemisphere; interior = odd number of loops
	verts [][]s2.Point
}

type c05G struct {
	kind  b6.GeometryType
	pt    s2.Point
	line  []s2.Point
	polys []c05GPoly
}

func c05GPolyFromRings(rings [][]s2.Point) c05GPoly {
	var g c05GPoly
	for _, ring := range rings {
		vs := append([]s2.Point(nil), ring...)
		l := s2.LoopFromPoints(vs)
		l.Normalize()
		g.loops = append(g.loops, l)
		g.verts = append(g.verts, l.Vertices())
	}
	return g
}

func c05GPolyFromS2(p *s2.Polygon) c05GPoly {
	var rings [][]s2.Point
	for _, l := range p.Loops() {
		rings = append(rings, l.Vertices())
	}
	return c05GPolyFromRings(rings)
}

// c05GeomOf reads the geometry of a feature through its public getters.
func c05GeomOf(f b6.Feature) c05G {
	g, ok := f.(b6.Geometry)
	if !ok {
		return c05G{kind: b6.GeometryTypeInvalid}
	}
	switch g.GeometryType() {
	case b6.GeometryTypePoint:
		return c05G{kind: b6.GeometryTypePoint, pt: g.Point()}
	case b6.GeometryTypePath:
		return c05G{kind: b6.GeometryTypePath, line: append([]s2.Point(nil), (*g.Polyline())...)}
	case b6.GeometryTypeArea:
		a := f.(b6.AreaFeature)
		out := c05G{kind: b6.GeometryTypeArea}
		for i := 0; i < a.Len(); i++ {
			out.polys = append(out.polys, c05GPolyFromS2(a.Polygon(i)))
		}
		return out
	}
	return c05G{kind: b6.GeometryTypeInvalid}
}

func (g c05GPoly) boundaryDist(p s2.Point) float64 {
	d := 10.0
	for _, vs := range g.verts {
		for i := range vs {
			if e := c05SegDist(p, vs[i], vs[(i+1)%len(vs)]); e < d {
				d = e
			}
		}
	}
	return d
}

func (g c05GPoly) contains(p s2.Point) c05Tri {
	if g.boundaryDist(p) < c05Eps {
		return c05U
	}
	inside := false
	for _, l := range g.loops {
		inside = inside != l.ContainsPoint(p)
	}
	return c05Bool(inside)
}

func c05PolysContain(polys []c05GPoly, p s2.Point) c05Tri {
	r := c05F
	for _, g := range polys {
		r = c05Or(r, g.contains(p))
		if r == c05T {
			return r
		}
	}
	return r
}

func c05LineDist(p s2.Point, line []s2.Point) float64 {
	if len(line) == 1 {
		return c05Dist(p, line[0])
	}
	d := 10.0
	for i := 1; i < len(line); i++ {
		if e := c05SegDist(p, line[i-1], line[i]); e < d {
			d = e
		}
	}
	return d
}

// c05Cross: do the segments ab and cd cross?
func c05Cross(a, b, c, d s2.Point) c05Tri {
	if c05SegDist(a, c, d) < c05Eps || c05SegDist(b, c, d) < c05Eps || c05SegDist(c, a, b) < c05Eps || c05SegDist(d, a, b) < c05Eps {
		return c05U
	}
	return c05Bool(s2.CrossingSign(a, b, c, d) == s2.Cross)
}

// c05ChainsCross: does any edge of chain x cross any edge of chain y?
// closedX / closedY say whether the chain is a loop.
func c05ChainsCross(x []s2.Point, closedX bool, y []s2.Point, closedY bool) c05Tri {
	nx, ny := len(x)-1, len(y)-1
	if closedX {
		nx = len(x)
	}
	if closedY {
		ny = len(y)
	}
	r := c05F
	for i := 0; i < nx; i++ {
		a, b := x[i], x[(i+1)%len(x)]
		for j := 0; j < ny; j++ {
			r = c05Or(r, c05Cross(a, b, y[j], y[(j+1)%len(y)]))
			if r == c05T {
				return r
			}
		}
	}
	return r
}

func c05InCell(cell s2.Cell, p s2.Point) c05Tri {
	if cell.BoundaryDistance(p).Angle().Radians() < c05Eps {
		return c05U
	}
	return c05Bool(cell.ContainsPoint(p))
}

func c05CellRing(cell s2.Cell) []s2.Point {
	return []s2.Point{cell.Vertex(0), cell.Vertex(1), cell.Vertex(2), cell.Vertex(3)}
}

func c05SharedVertex(x, y []s2.Point) bool {
	for _, a := range x {
		for _, b := range y {
			if a == b {
				return true
			}
		}
	}
	return false
}

// ---- the five region kinds against a feature geometry -----------------------

func c05OracleCap(centre s2.Point, radius float64, g c05G) c05Tri {
	switch g.kind {
	case b6.GeometryTypePoint:
		return c05LE(c05Dist(centre, g.pt), radius)
	case b6.GeometryTypePath:
		return c05LE(c05LineDist(centre, g.line), radius)
	case b6.GeometryTypeArea:
		r := c05F
		for _, p := range g.polys {
			r = c05Or(r, c05Or(p.contains(centre), c05LE(p.boundaryDist(centre), radius)))
			if r == c05T {
				return r
			}
		}
		return r
	}
	return c05F
}

func c05OracleCells(cells []s2.Cell, g c05G) c05Tri {
	r := c05F
	for _, cell := range cells {
		switch g.kind {
		case b6.GeometryTypePoint:
			r = c05Or(r, c05InCell(cell, g.pt))
		case b6.GeometryTypePath:
			for _, v := range g.line {
				r = c05Or(r, c05InCell(cell, v))
			}
			if r != c05T {
				r = c05Or(r, c05ChainsCross(c05CellRing(cell), true, g.line, false))
			}
		case b6.GeometryTypeArea:
			for _, p := range g.polys {
				for _, vs := range p.verts {
					for _, v := range vs {
						r = c05Or(r, c05InCell(cell, v))
					}
					if r != c05T {
						r = c05Or(r, c05ChainsCross(c05CellRing(cell), true, vs, true))
					}
				}
				if r != c05T {
					r = c05Or(r, p.contains(cell.Center()))
				}
			}
		}
		if r == c05T {
			return r
		}
	}
	return r
}

func c05OraclePoint(q s2.Point, g c05G) c05Tri {
	switch g.kind {
	case b6.GeometryTypePoint:
		if q == g.pt {
			return c05T
		}
		if c05Dist(q, g.pt) >= c05Eps {
			return c05F
		}
		return c05U
	case b6.GeometryTypePath:
		for _, v := range g.line {
			if v == q {
				return c05T
			}
		}
		if c05LineDist(q, g.line) >= c05Eps {
			return c05F
		}
		return c05U
	case b6.GeometryTypeArea:
		return c05PolysContain(g.polys, q)
	}
	return c05F
}

func c05OracleLine(q []s2.Point, g c05G) c05Tri {
	switch g.kind {
	case b6.GeometryTypePoint:
		for _, v := range q {
			if v == g.pt {
				return c05T
			}
		}
		if c05LineDist(g.pt, q) >= c05Eps {
			return c05F
		}
		return c05U
	case b6.GeometryTypePath:
		if c05SharedVertex(q, g.line) {
			return c05T
		}
		return c05ChainsCross(q, false, g.line, false)
	case b6.GeometryTypeArea:
		return c05LineVsPolys(q, g.polys)
	}
	return c05F
}

// c05LineVsPolys: the documented approximation (a vertex of the polyline inside
// a polygon) is the reference; where it says "no" but the polyline crosses (or
// may cross) a polygon boundary, exact geometry says "yes" and either answer is
// allowed.
func c05LineVsPolys(line []s2.Point, polys []c05GPoly) c05Tri {
	r := c05F
	for _, v := range line {
		r = c05Or(r, c05PolysContain(polys, v))
		if r == c05T {
			return r
		}
	}
	if r == c05U {
		return c05U
	}
	x := c05F
	for _, p := range polys {
		for _, vs := range p.verts {
			x = c05Or(x, c05ChainsCross(line, false, vs, true))
		}
	}
	if x == c05F {
		return c05F
	}
	return c05Either
}

func c05PolyPoly(a, b c05GPoly) c05Tri {
	r := c05F
	for _, va := range a.verts {
		for _, vb := range b.verts {
			r = c05Or(r, c05ChainsCross(va, true, vb, true))
			if r == c05T {
				return r
			}
		}
	}
	for _, va := range a.verts {
		for _, v := range va {
			r = c05Or(r, b.contains(v))
			if r == c05T {
				return r
			}
		}
	}
	for _, vb := range b.verts {
		for _, v := range vb {
			r = c05Or(r, a.contains(v))
			if r == c05T {
				return r
			}
		}
	}
	return r
}

func c05OracleMultiPolygon(q []c05GPoly, g c05G) c05Tri {
	switch g.kind {
	case b6.GeometryTypePoint:
		return c05PolysContain(q, g.pt)
	case b6.GeometryTypePath:
		return c05LineVsPolys(g.line, q)
	case b6.GeometryTypeArea:
		r := c05F
		for _, a := range q {
			for _, b := range g.polys {
				r = c05Or(r, c05PolyPoly(a, b))
				if r == c05T {
					return r
				}
			}
		}
		return r
	}
	return c05F
}

// c05OracleGeom: the region is the geometry of another feature (IntersectsFeature).
func c05OracleGeom(q c05G, g c05G) c05Tri {
	switch q.kind {
	case b6.GeometryTypePoint:
		return c05OraclePoint(q.pt, g)
	case b6.GeometryTypePath:
		return c05OracleLine(q.line, g)
	case b6.GeometryTypeArea:
		return c05OracleMultiPolygon(q.polys, g)
	}
	return c05F
}
