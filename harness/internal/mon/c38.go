package mon

import (
	"fmt"
	"strings"

	"diagonal.works/b6"
	"diagonal.works/b6/ingest"
	"github.com/golang/geo/s2"
	"verif/internal/core"
	"verif/internal/obs"
	"verif/internal/wm"
)

// C38 Callers' feature values are isolated from the world.
//
// The monitor adds a feature to a mutable world (as a new feature, and as a
// replacement of an existing one), takes the full observation dump, then
// mutates the caller's value through every mutator of the ingest.Feature API
// and the kind-specific setters/fields, and retakes the dump: it must not
// change. Likewise clones: mutating a clone must not change its original and
// vice versa (compared through an own rendering of the ingest feature).

func c38Render(f ingest.Feature) string {
	var sb strings.Builder
	sb.WriteString(f.FeatureID().String() + " " + obs.RenderTags(f.AllTags()))
	switch f := f.(type) {
	case *ingest.AreaFeature:
		for i := 0; i < f.Len(); i++ {
			if ids, ok := f.PathIDs(i); ok {
				sb.WriteString(fmt.Sprintf(" paths%v", ids))
			}
			if p, ok := f.Polygon(i); ok {
				sb.WriteString(" " + obs.RenderPolygon(p))
			}
		}
	case *ingest.RelationFeature:
		for _, m := range f.Members {
			sb.WriteString(fmt.Sprintf(" (%s,%q)", m.ID, m.Role))
		}
	case *ingest.CollectionFeature:
		for i := range f.Keys {
			sb.WriteString(fmt.Sprintf(" %v:%v", f.Keys[i], f.Values[i]))
		}
	}
	return sb.String()
}

type c38Mutation struct {
	name  string
	kinds string // which feature kinds it applies to: g(eneric) a(rea) r(elation) c(ollection)
	apply func(f ingest.Feature, r *core.R)
}

var c38Other = b6.FeatureID{Type: b6.FeatureTypePath, Namespace: b6.NamespaceOSMWay, Value: 777}

var c38Mutations = []c38Mutation{
	{"AddTag", "garc", func(f ingest.Feature, r *core.R) {
		f.AddTag(b6.Tag{Key: "#mutated", Value: b6.NewStringExpression("x")})
	}},
	{"ModifyOrAddTag-existing", "garc", func(f ingest.Feature, r *core.R) {
		for _, t := range f.AllTags() {
			if t.Key != b6.PointTag && t.Key != b6.PathTag {
				f.ModifyOrAddTag(b6.Tag{Key: t.Key, Value: b6.NewStringExpression("mutated")})
				return
			}
		}
		f.ModifyOrAddTag(b6.Tag{Key: "name", Value: b6.NewStringExpression("mutated")})
	}},
	{"ModifyOrAddTag-new", "garc", func(f ingest.Feature, r *core.R) {
		f.ModifyOrAddTag(b6.Tag{Key: "#shop", Value: b6.NewStringExpression("mutated")})
	}},
	{"RemoveTag", "garc", func(f ingest.Feature, r *core.R) {
		for _, t := range f.AllTags() {
			if t.Key != b6.PointTag && t.Key != b6.PathTag {
				f.RemoveTag(t.Key)
				return
			}
		}
	}},
	{"RemoveTags", "garc", func(f ingest.Feature, r *core.R) {
		var keys []string
		for _, t := range f.AllTags() {
			if t.Key != b6.PointTag && t.Key != b6.PathTag {
				keys = append(keys, t.Key)
			}
		}
		f.RemoveTags(keys)
	}},
	{"RemoveAllTags", "arc", func(f ingest.Feature, r *core.R) { f.RemoveAllTags() }},
	{"SetTags", "arc", func(f ingest.Feature, r *core.R) {
		f.SetTags([]b6.Tag{{Key: "name", Value: b6.NewStringExpression("mutated")}})
	}},
	{"tag-slice-element", "garc", func(f ingest.Feature, r *core.R) {
		tags := f.AllTags()
		for i := range tags {
			if tags[i].Key != b6.PointTag && tags[i].Key != b6.PathTag {
				tags[i].Value = b6.NewStringExpression("mutated-in-place")
				return
			}
		}
	}},
	{"ModifyOrAddTagAt-path", "g", func(f ingest.Feature, r *core.R) {
		if f.FeatureID().Type == b6.FeatureTypePath {
			f.ModifyOrAddTagAt(b6.Tag{Key: b6.PathTag, Value: b6.NewPointExpressionFromLatLng(wm.E7(515000000, -1000000))}, 0)
		}
	}},
	{"path-expressions-element", "g", func(f ingest.Feature, r *core.R) {
		if es, ok := f.Get(b6.PathTag).Value.AnyExpression.(b6.Expressions); ok && len(es) > 0 {
			es[0] = b6.PointExpression(wm.E7(515000000, -1000000))
		}
	}},
	{"MergeFrom", "garc", func(f ingest.Feature, r *core.R) {
		switch f := f.(type) {
		case *ingest.GenericFeature:
			f.MergeFrom(&ingest.GenericFeature{ID: f.ID, Tags: b6.Tags{{Key: "name", Value: b6.NewStringExpression("merged")}}})
		case *ingest.AreaFeature:
			o := ingest.NewAreaFeature(1)
			o.AreaID = f.AreaID
			o.SetPathIDs(0, []b6.FeatureID{c38Other})
			f.MergeFrom(o)
		case *ingest.RelationFeature:
			o := ingest.NewRelationFeature(1)
			o.RelationID = f.RelationID
			o.Members[0] = b6.RelationMember{ID: c38Other, Role: "merged"}
			f.MergeFrom(o)
		case *ingest.CollectionFeature:
			f.MergeFrom(&ingest.CollectionFeature{CollectionID: f.CollectionID, Keys: []any{"merged"}, Values: []any{1}})
		}
	}},
	{"SetPathID", "a", func(f ingest.Feature, r *core.R) {
		a := f.(*ingest.AreaFeature)
		// any polygon with path ids, the last one as often as the first
		var with []int
		for i := 0; i < a.Len(); i++ {
			if _, ok := a.PathIDs(i); ok {
				with = append(with, i)
			}
		}
		if len(with) > 0 {
			i := with[len(with)-1]
			if r.Bool() {
				i = core.Pick(r, with)
			}
			a.SetPathID(i, 0, c38Other)
		}
	}},
	{"SetPathIDs", "a", func(f ingest.Feature, r *core.R) {
		a := f.(*ingest.AreaFeature)
		if a.Len() > 0 {
			a.SetPathIDs(0, []b6.FeatureID{c38Other})
		}
	}},
	{"PathIDs-slice-element", "a", func(f ingest.Feature, r *core.R) {
		a := f.(*ingest.AreaFeature)
		var with []int
		for i := 0; i < a.Len(); i++ {
			if ids, ok := a.PathIDs(i); ok && len(ids) > 0 {
				with = append(with, i)
			}
		}
		if len(with) > 0 {
			i := with[len(with)-1]
			if r.Bool() {
				i = core.Pick(r, with)
			}
			ids, _ := a.PathIDs(i)
			ids[0] = c38Other
		}
	}},
	{"SetPolygon", "a", func(f ingest.Feature, r *core.R) {
		a := f.(*ingest.AreaFeature)
		if a.Len() > 0 {
			a.SetPolygon(0, s2.PolygonFromLoops([]*s2.Loop{wm.LoopToPolygonLoop([]s2.LatLng{wm.E7(1, 1), wm.E7(1, 100), wm.E7(100, 1)})}))
		}
	}},
	{"Members-element", "r", func(f ingest.Feature, r *core.R) {
		rel := f.(*ingest.RelationFeature)
		if len(rel.Members) > 0 {
			rel.Members[0] = b6.RelationMember{ID: c38Other, Role: "mutated"}
		}
	}},
	{"Members-append", "r", func(f ingest.Feature, r *core.R) {
		rel := f.(*ingest.RelationFeature)
		rel.Members = append(rel.Members, b6.RelationMember{ID: c38Other, Role: "appended"})
	}},
	{"Keys-element", "c", func(f ingest.Feature, r *core.R) {
		col := f.(*ingest.CollectionFeature)
		if len(col.Keys) > 0 {
			col.Keys[0] = "mutated-key"
		}
	}},
	{"Values-element", "c", func(f ingest.Feature, r *core.R) {
		col := f.(*ingest.CollectionFeature)
		if len(col.Values) > 0 {
			col.Values[0] = "mutated-value"
		}
	}},
	{"Keys-append", "c", func(f ingest.Feature, r *core.R) {
		col := f.(*ingest.CollectionFeature)
		col.Keys = append(col.Keys, "appended")
		col.Values = append(col.Values, 99)
	}},
	{"SetFeatureID", "rc", func(f ingest.Feature, r *core.R) {
		id := f.FeatureID()
		id.Value += 100000
		f.SetFeatureID(id)
	}},
}

func c38KindLetter(t b6.FeatureType) string {
	switch t {
	case b6.FeatureTypeArea:
		return "a"
	case b6.FeatureTypeRelation:
		return "r"
	case b6.FeatureTypeCollection:
		return "c"
	}
	return "g"
}

func init() {
	var required []string
	for _, m := range c38Mutations {
		required = append(required, "mutation_"+m.name)
	}
	required = append(required, "world_basic-mutable", "world_mutable-overlay", "mode_new", "mode_replace", "clone_checks", "replacement_larger", "replacement_smaller")
	core.Register(&core.Monitor{
		ID:        "C38",
		Title:     "Callers' feature values are isolated from the world",
		Technique: "before/after observation-dump comparison around caller-side mutation of an added feature; clone/original independence by rendering",
		Rule: "case = (world kind, feature kind generic/area/relation/collection, added as new or as replacement, one mutator of the feature API or a kind-specific setter/field); " +
			"distinct = world + feature + mode + mutation; non-trivial = the mutation changed the caller's own value",
		Assumptions: []string{"mutating the backing array of a slice obtained from an accessor (tag list, path ids, members, keys/values) counts as a change the caller can make"},
		Quick:       2400, Thorough: 200000,
		Required: required,
		Run: func(c *core.Ctx) {
			r := c.R
			kind := []string{"basic-mutable", "mutable-overlay"}[c.Index%2]
			mode := []string{"new", "replace"}[(c.Index/2)%2]
			c.Count("world_" + kind)
			c.Count("mode_" + mode)
			o := wm.DefaultGen()
			o.MaxRings, o.MaxRelations, o.MaxCollections = 2, 2, 2
			g := wm.NewGen(r.Fork(), o)
			specs := g.World()
			// make sure every kind exists
			ps, ring := g.Ring(150000, 150000, 3000, 4, false)
			area := &wm.Spec{ID: b6.FeatureID{Type: b6.FeatureTypeArea, Namespace: ring.ID.Namespace, Value: ring.ID.Value}, Tags: g.RandomTags(1), Polys: []wm.Poly{{PathIDs: []b6.FeatureID{ring.ID}}}}
			rel := &wm.Spec{ID: g.NewID(b6.FeatureTypeRelation, b6.NamespaceOSMRelation), Tags: g.RandomTags(1), Members: []b6.RelationMember{{ID: ps[0].ID, Role: "a"}, {ID: ring.ID, Role: "b"}}}
			col := &wm.Spec{ID: g.NewID(b6.FeatureTypeCollection, "diagonal.works/ns/test"), Tags: g.RandomTags(1), Keys: []any{"k1", ps[1].ID}, Values: []any{1, 2}}
			// a second ring, so that a replacement area can have more polygons than the stored one
			ps2, ring2 := g.Ring(190000, 150000, 3000, 4, false)
			specs = append(specs, ps...)
			specs = append(specs, ps2...)
			specs = append(specs, ring, ring2, area, rel, col)
			model := wm.ModelOf(specs)
			// the subject: pick by case index so that all kinds are covered
			var subject *wm.Spec
			switch (c.Index / 4) % 4 {
			case 0:
				// in "new" mode the subject is added last, so nothing with geometry may depend on it
				needed := map[b6.FeatureID]bool{}
				for _, s := range specs {
					if s.ID.Type == b6.FeatureTypePath || s.ID.Type == b6.FeatureTypeArea {
						for _, ref := range s.Refs() {
							needed[ref] = true
						}
					}
				}
				var generic []*wm.Spec
				for _, s := range specs {
					if (s.ID.Type == b6.FeatureTypePoint || s.ID.Type == b6.FeatureTypePath) && (mode == "replace" || !needed[s.ID]) {
						generic = append(generic, s)
					}
				}
				subject = core.Pick(r, generic)
			case 1:
				subject = area
			case 2:
				subject = rel
			case 3:
				subject = col
			}
			letter := c38KindLetter(subject.ID.Type)
			var applicable []c38Mutation
			for _, m := range c38Mutations {
				if strings.Contains(m.kinds, letter) {
					applicable = append(applicable, m)
				}
			}
			mut := applicable[(c.Index/16)%len(applicable)]
			c.Count("mutation_" + mut.name)
			c.Key("%s/%s/%s/%s", kind, mode, subject.String(), mut.name)

			// build the world; in "new" mode the subject is left out and added by the caller
			var initial []*wm.Spec
			for _, s := range specs {
				if mode == "new" && s.ID == subject.ID {
					continue
				}
				// in new mode nothing may reference a missing path/point: the subjects chosen are leaves or referenced only by relations/collections,
				// except ring/points under the area; skip dependants of a left-out subject
				if mode == "new" {
					dep := false
					for _, ref := range s.Refs() {
						if ref == subject.ID && s.ID.Type != b6.FeatureTypeRelation && s.ID.Type != b6.FeatureTypeCollection {
							dep = true
						}
					}
					if dep {
						continue
					}
				}
				initial = append(initial, s)
			}
			var world ingest.MutableWorld
			var err error
			if kind == "basic-mutable" {
				world, err = wm.BasicMutable(initial)
			} else {
				var base b6.World
				if mode == "replace" && r.Bool() {
					// the existing version lives in the overlay already
					base, err = wm.Basic(initial, 1)
					if err == nil {
						mo := ingest.NewMutableOverlayWorld(base)
						err = mo.AddFeature(subject.Ingest())
						world = mo
					}
				} else {
					base, err = wm.Basic(initial, 1)
					if err == nil {
						world = ingest.NewMutableOverlayWorld(base)
					}
				}
			}
			if err != nil {
				c.Violate("setup-failed:"+kind, nil, "setup failed: %v", err)
				return
			}
			callers := subject.Clone()
			if mode == "replace" {
				callers.Tags = append(g.RandomTags(1), b6.Tag{Key: "replaced", Value: b6.NewStringExpression("yes")})
				// the replacement may be larger or smaller than the stored version (exercises the grow/shrink paths of MergeFrom)
				switch r.Intn(3) {
				case 0:
					c.Count("replacement_larger")
					switch subject.ID.Type {
					case b6.FeatureTypeArea:
						callers.Polys = append(callers.Polys, wm.Poly{PathIDs: []b6.FeatureID{ring2.ID}})
					case b6.FeatureTypeRelation:
						callers.Members = append(callers.Members, b6.RelationMember{ID: ring2.ID, Role: "extra"}, b6.RelationMember{ID: ps2[0].ID, Role: "extra2"})
					case b6.FeatureTypeCollection:
						callers.Keys = append(callers.Keys, "extra", ps2[1].ID)
						callers.Values = append(callers.Values, 7, 8)
					}
				case 1:
					c.Count("replacement_smaller")
					switch subject.ID.Type {
					case b6.FeatureTypeRelation:
						callers.Members = callers.Members[:1]
					case b6.FeatureTypeCollection:
						callers.Keys, callers.Values = callers.Keys[:1], callers.Values[:1]
					}
				}
			}
			f := callers.Ingest()
			if err := world.AddFeature(f); err != nil {
				c.Violate("setup-failed:add:"+kind, nil, "AddFeature(%s) failed: %v", callers, err)
				return
			}
			model.Add(callers)
			probes := c13Probes(model, c38Other)
			before := obs.Take(world, probes)
			mine := c38Render(f)
			if p, cl, fr, _ := core.Protect(func() { mut.apply(f, r) }); p {
				// a mutator that panics on the caller's own value is not this property's business unless it is a b6 bug: report it
				c.Violate("mutator-panic:"+mut.name+"@"+fr, nil, "%s on the caller's %s panicked: %s", mut.name, callers, cl)
				return
			}
			if c38Render(f) != mine {
				c.Nontrivial()
			}
			after := obs.Take(world, probes)
			if diffs := before.Diff(after); len(diffs) > 0 {
				c.Violate("world-changed:"+mut.name+":"+letter+":"+mode+":"+worldClass(kind), map[string]any{"feature": callers.String(), "mutation": mut.name, "diffs": len(diffs)},
					"after AddFeature (%s) on a %s world, %s on the caller's value changed the world: %s", mode, kind, mut.name, diffs[0])
			}

			// clones: independent both ways
			orig := subject.Ingest()
			clone := orig.Clone()
			c.Count("clone_checks")
			o0, c0 := c38Render(orig), c38Render(clone)
			if o0 != c0 {
				c.Violate("clone-differs:"+letter, nil, "Clone of %s renders as %s", o0, c0)
				return
			}
			core.Protect(func() { mut.apply(clone, r) })
			if got := c38Render(orig); got != o0 {
				c.Violate("clone-mutation-changed-original:"+mut.name+":"+letter, nil, "%s on a clone changed the original from %s to %s", mut.name, o0, got)
			}
			orig2 := subject.Ingest()
			clone2 := orig2.Clone()
			core.Protect(func() { mut.apply(orig2, r) })
			if got := c38Render(clone2); got != c0 {
				c.Violate("original-mutation-changed-clone:"+mut.name+":"+letter, nil, "%s on the original changed its clone from %s to %s", mut.name, c0, got)
			}
			if c.Index < 3 {
				c.Sample(map[string]any{"world": kind, "mode": mode, "feature": callers.String(), "mutation": mut.name})
			}
		},
	})
}
