package mon

import (
	"fmt"
	"math"
	"sort"
	"strings"

	"diagonal.works/b6/osm"
	"verif/internal/core"
)

// G-OSM: the shared OSM-shaped input generator (DESIGN.md section 4), used by
// C29 (rule oracle) and C02 (basic/compact differential).
//
// Everything is geometrically valid by construction unless a labelled
// sub-case says otherwise:
//   - node coordinates are exact multiples of 1e-7 degrees and pairwise distinct;
//   - closed ways are star-shaped rings around a centre (counter-clockwise by
//     construction, optionally listed clockwise), each ring has its own nodes;
//   - inner rings lie strictly inside the disc inscribed in their outer ring
//     and are pairwise disjoint;
//   - open ways never repeat a node consecutively and never end where they start;
//   - plain relations never form reference cycles (cycles are C15's subject).
//
// Labelled sub-cases (recorded in Labels, never silently mixed in):
//   mp_missing_way   a multipolygon has a way member that is not in the input
//   mp_open_way      a multipolygon has a way member that is not closed
//   (both make the documented assembly give up; the oracle tolerates "no area")
//   reserved_point_key  a node carries an OSM tag with key "point"
//   reserved_path_key   an open way carries an OSM tag with key "path"
//   (the geometry decides the feature's point / path; the OSM tag of that key is don't-care)

type c29Opts struct {
	MinNodes, MaxNodes int
	BrokenMP           float64 // probability that a multipolygon gets a missing/open way member
	Reserved           float64 // probability that a node / an open way carries an OSM tag whose key is b6's geometry key
	SharedWays         float64 // probability that a multipolygon gets a twin over the same way members
}

func c29DefaultOpts() c29Opts {
	return c29Opts{MinNodes: 5, MaxNodes: 60, BrokenMP: 0.15, SharedWays: 0.3}
}

type c29Input struct {
	Nodes     []osm.Node
	Ways      []osm.Way
	Relations []osm.Relation
	Labels    map[string]int
	CW        map[osm.WayID]bool // closed ways listed clockwise
}

func (in *c29Input) label(l string) { in.Labels[l]++ }

// String is the canonical text of the input (used for the case key and the witness).
func (in *c29Input) String() string {
	var sb strings.Builder
	for _, n := range in.Nodes {
		fmt.Fprintf(&sb, "n%d@%d,%d%s;", n.ID, c29E7(n.Location.Lat), c29E7(n.Location.Lng), c29TagText(n.Tags))
	}
	for _, w := range in.Ways {
		fmt.Fprintf(&sb, "w%d%v%s;", w.ID, w.Nodes, c29TagText(w.Tags))
	}
	for _, r := range in.Relations {
		fmt.Fprintf(&sb, "r%d[", r.ID)
		for _, m := range r.Members {
			fmt.Fprintf(&sb, "%s%d:%q ", "nwr"[m.Type:m.Type+1], m.ID, m.Role)
		}
		sb.WriteString("]" + c29TagText(r.Tags) + ";")
	}
	return sb.String()
}

// Witness is a JSON-able, readable rendering of the input.
func (in *c29Input) Witness() map[string]any {
	var ns, ws, rs []string
	for _, n := range in.Nodes {
		ns = append(ns, fmt.Sprintf("node %d @%d,%d %s", n.ID, c29E7(n.Location.Lat), c29E7(n.Location.Lng), c29TagText(n.Tags)))
	}
	for _, w := range in.Ways {
		cw := ""
		if in.CW[w.ID] {
			cw = " (clockwise)"
		}
		ws = append(ws, fmt.Sprintf("way %d nodes=%v %s%s", w.ID, w.Nodes, c29TagText(w.Tags), cw))
	}
	for _, r := range in.Relations {
		var ms []string
		for _, m := range r.Members {
			ms = append(ms, fmt.Sprintf("%s/%d:%q", []string{"node", "way", "relation"}[m.Type], m.ID, m.Role))
		}
		rs = append(rs, fmt.Sprintf("relation %d members=[%s] %s", r.ID, strings.Join(ms, " "), c29TagText(r.Tags)))
	}
	return map[string]any{"nodes": ns, "ways": ws, "relations": rs}
}

func c29E7(deg float64) int64 { return int64(math.Round(deg * 1e7)) }

func c29TagText(t osm.Tags) string {
	if len(t) == 0 {
		return "{}"
	}
	parts := make([]string, len(t))
	for i, tag := range t {
		parts[i] = tag.Key + "=" + tag.Value
	}
	return "{" + strings.Join(parts, ",") + "}"
}

// keys inside the documented mapping (ingest/osm.go) and outside it
var c29MappedKeys = []string{"amenity", "barrier", "boundary", "bridge", "building", "highway", "landuse", "leisure", "natural", "network",
	"place", "railway", "route", "shop", "tourism", "water", "waterway", "fhrs:id", "wikidata", "wikipedia"}
var c29PlainKeys = []string{"name", "oneway", "diagonal:weight", "ref", "addr:housenumber", "layer", "maxspeed", "Highway", "highway:lanes", "source"}
var c29Values = []string{"yes", "no", "primary", "footway", "cafe", "park", "Q42", "", "1", "-1", "Granary Square", "a=b", "café"}

type c29Gen struct {
	r    *core.R
	in   *c29Input
	used map[[2]int64]bool
	ids  [3]map[int64]bool
}

// newID draws an unused ID for an element type. The three ID spaces overlap on
// purpose (way 7, relation 7 and node 7 are different elements).
func (g *c29Gen) newID(t osm.ElementType) int64 {
	for {
		var id int64
		switch x := g.r.Intn(20); {
		case x < 16:
			id = int64(g.r.Range(1, 90))
		case x < 18:
			id = int64(1)<<31 + int64(g.r.Range(-2, 40))
		case x < 19:
			id = int64(1)<<32 + int64(g.r.Range(-2, 40))
		default:
			id = int64(1)<<40 + int64(g.r.Range(0, 1000))
		}
		if !g.ids[t][id] {
			g.ids[t][id] = true
			return id
		}
	}
}

func (g *c29Gen) tags(pTagged float64, maxTags int) osm.Tags {
	if !g.r.Chance(pTagged) {
		return nil
	}
	n := g.r.Range(1, maxTags)
	var tags osm.Tags
	seen := map[string]bool{}
	for i := 0; i < n; i++ {
		var k string
		if g.r.Chance(0.6) {
			k = core.Pick(g.r, c29MappedKeys)
		} else {
			k = core.Pick(g.r, c29PlainKeys)
		}
		if seen[k] || k == "type" {
			continue
		}
		seen[k] = true
		tags = append(tags, osm.Tag{Key: k, Value: core.Pick(g.r, c29Values)})
	}
	return tags
}

// addNode places a node on an unused grid position.
func (g *c29Gen) addNode(latE7, lngE7 int64, tags osm.Tags) osm.NodeID {
	for g.used[[2]int64{latE7, lngE7}] {
		latE7 += int64(g.r.Range(1, 7))
		lngE7 -= int64(g.r.Range(1, 7))
	}
	g.used[[2]int64{latE7, lngE7}] = true
	id := osm.NodeID(g.newID(osm.ElementTypeNode))
	g.in.Nodes = append(g.in.Nodes, osm.Node{ID: id, Location: osm.LatLng{Lat: float64(latE7) / 1e7, Lng: float64(lngE7) / 1e7}, Tags: tags})
	return id
}

// ring adds the nodes of a star-shaped ring with k vertices around (clat,clng)
// whose radii lie in [rmin, 1.5 rmin], counter-clockwise, and returns them
// together with the radius of a disc around the centre that lies inside it.
func (g *c29Gen) ring(clat, clng int64, k int, rmin float64) ([]osm.NodeID, float64) {
	ids := make([]osm.NodeID, k)
	spacing := 2 * math.Pi / float64(k)
	phase := g.r.Float() * 2 * math.Pi
	for i := 0; i < k; i++ {
		theta := phase + spacing*(float64(i)+(g.r.Float()-0.5)*0.4) // jitter <= spacing/5
		rad := rmin * (1 + 0.5*g.r.Float())
		lat := clat + int64(math.Round(rad*math.Sin(theta)))
		lng := clng + int64(math.Round(rad*math.Cos(theta)))
		ids[i] = g.addNode(lat, lng, g.tags(0.15, 2))
	}
	// the largest angular gap is <= 1.4 spacing, so the disc of radius
	// rmin*cos(0.75 spacing) around the centre is inside the ring (0.8 = margin
	// for rounding and for the nudges of addNode)
	return ids, 0.8 * rmin * math.Cos(0.75*spacing)
}

// closedWay turns ring nodes into a closed way: random start vertex, optionally clockwise.
func (g *c29Gen) closedWay(ring []osm.NodeID, tags osm.Tags, pCW float64) osm.WayID {
	k := len(ring)
	start := g.r.Intn(k)
	nodes := make([]osm.NodeID, 0, k+1)
	for i := 0; i <= k; i++ {
		nodes = append(nodes, ring[(start+i)%k])
	}
	id := osm.WayID(g.newID(osm.ElementTypeWay))
	if g.r.Chance(pCW) {
		for i, j := 0, len(nodes)-1; i < j; i, j = i+1, j-1 {
			nodes[i], nodes[j] = nodes[j], nodes[i]
		}
		g.in.CW[id] = true
		g.in.label("closed_way_cw")
	} else {
		g.in.label("closed_way_ccw")
	}
	g.in.Ways = append(g.in.Ways, osm.Way{ID: id, Nodes: nodes, Tags: tags})
	return id
}

type c29RingGroup struct {
	outer  osm.WayID
	inners []osm.WayID
	nodes  []osm.NodeID // every node of the group
}

var c29Origins = [][2]int64{{515350000, -1250000}, {515350000, -1250000}, {-338600000, 1512100000}, {-2000000, -785000000}, {100, 100}}

// c29Generate draws one OSM-shaped input.
func c29Generate(r *core.R, o c29Opts) *c29Input {
	in := &c29Input{Labels: map[string]int{}, CW: map[osm.WayID]bool{}}
	g := &c29Gen{r: r, in: in, used: map[[2]int64]bool{}}
	for i := range g.ids {
		g.ids[i] = map[int64]bool{}
	}
	budget := r.Range(o.MinNodes, o.MaxNodes)
	origin := core.Pick(r, c29Origins)
	place := func() (int64, int64) {
		return origin[0] + int64(r.Range(-300000, 300000)), origin[1] + int64(r.Range(-300000, 300000))
	}

	// 1. ring groups: an outer ring with 0..2 holes
	var groups []c29RingGroup
	ngroups := 0
	if budget >= 8 {
		ngroups = r.Range(0, 1+budget/12)
		if ngroups > 4 {
			ngroups = 4
		}
		if ngroups == 0 && r.Chance(0.5) {
			ngroups = 1
		}
	}
	for gi := 0; gi < ngroups && len(in.Nodes)+3 <= budget; gi++ {
		clat, clng := place()
		holes := 0
		if r.Chance(0.5) && budget-len(in.Nodes) >= 10 {
			holes = r.Range(1, 2)
		}
		k := r.Range(3, 8)
		if holes > 0 && k < 4 {
			k = 4
		}
		if k > budget-len(in.Nodes) {
			k = budget - len(in.Nodes)
		}
		rmin := float64(r.Range(4000, 40000))
		ring, rin := g.ring(clat, clng, k, rmin)
		grp := c29RingGroup{nodes: append([]osm.NodeID{}, ring...)}
		// tags: multipolygon outers are usually untagged, buildings tagged
		grp.outer = g.closedWay(ring, g.tags(0.6, 3), 0.3)
		axis := r.Float() * 2 * math.Pi
		for h := 0; h < holes && len(in.Nodes)+3 <= budget; h++ {
			// hole centres at +0.5 rin and -0.5 rin on one axis, radii <= 0.3 rin: inside the disc, disjoint
			sign := float64(1 - 2*h)
			hlat := clat + int64(math.Round(sign*0.5*rin*math.Sin(axis)))
			hlng := clng + int64(math.Round(sign*0.5*rin*math.Cos(axis)))
			hk := r.Range(3, 5)
			if hk > budget-len(in.Nodes) {
				hk = budget - len(in.Nodes)
			}
			hring, _ := g.ring(hlat, hlng, hk, 0.2*rin)
			grp.nodes = append(grp.nodes, hring...)
			grp.inners = append(grp.inners, g.closedWay(hring, g.tags(0.3, 2), 0.5))
		}
		groups = append(groups, grp)
	}
	ringNodes := len(in.Nodes)

	// 2. free nodes
	for len(in.Nodes) < budget {
		lat, lng := place()
		g.addNode(lat, lng, g.tags(0.3, 3))
	}
	if len(in.Nodes) < o.MinNodes {
		panic("c29Generate: too few nodes")
	}
	allNodes := make([]osm.NodeID, len(in.Nodes))
	for i, n := range in.Nodes {
		allNodes[i] = n.ID
	}
	free := allNodes[ringNodes:]

	// 3. open ways
	var openWays []osm.WayID
	nopen := r.Range(0, 2+budget/8)
	if len(groups) == 0 && nopen == 0 {
		nopen = 1
	}
	for wi := 0; wi < nopen; wi++ {
		n := r.Range(2, 7)
		pool := free
		if len(pool) < 3 || r.Chance(0.35) {
			pool = allNodes // may run through ring vertices: path/area junctions
		}
		if n > len(pool) {
			n = len(pool)
		}
		perm := r.Perm(len(pool))[:n]
		nodes := make([]osm.NodeID, n)
		for i, p := range perm {
			nodes[i] = pool[p]
		}
		// start or end at a node of an earlier open way: junctions and shared ends
		if len(openWays) > 0 && r.Chance(0.5) {
			prev := in.Ways[len(in.Ways)-1]
			shared := prev.Nodes[r.Intn(len(prev.Nodes))]
			ok := true
			for _, x := range nodes {
				if x == shared {
					ok = false
				}
			}
			if ok {
				nodes[r.Intn(n)] = shared
				in.label("way_shares_node")
			}
		}
		// a node used twice inside one open way (never consecutively, never closing the way)
		if n >= 4 && r.Chance(0.15) {
			i := r.Range(1, n-3)
			// insert nodes[i] again after nodes[i+1]: a, b, c, b, d
			nodes = append(nodes[:i+2], append([]osm.NodeID{nodes[i]}, nodes[i+2:]...)...)
			in.label("way_node_twice")
		}
		id := osm.WayID(g.newID(osm.ElementTypeWay))
		in.Ways = append(in.Ways, osm.Way{ID: id, Nodes: nodes, Tags: g.tags(0.8, 3)})
		openWays = append(openWays, id)
		in.label("open_way")
		if len(nodes) == 2 {
			in.label("open_way_2_nodes")
		}
	}

	// 4. multipolygons
	type mpInfo struct {
		id     osm.RelationID
		broken bool
	}
	var mps []mpInfo
	nodeRoles := []string{"label", "admin_centre", "", "outer"}
	missingWay := func() osm.AnyID { return osm.AnyID(5000 + r.Intn(50)) }
	for gi := 0; gi < len(groups); gi++ {
		grp := groups[gi]
		if len(grp.inners) == 0 && !r.Chance(0.5) {
			continue
		}
		var members []osm.Member
		addGroup := func(grp c29RingGroup) {
			role := "outer"
			if r.Chance(0.2) {
				role = "" // an empty role counts as outer
				in.label("mp_empty_role_outer")
			}
			members = append(members, osm.Member{Type: osm.ElementTypeWay, ID: osm.AnyID(grp.outer), Role: role})
			for _, inner := range grp.inners {
				members = append(members, osm.Member{Type: osm.ElementTypeWay, ID: osm.AnyID(inner), Role: "inner"})
			}
			if len(grp.inners) > 0 {
				in.label("mp_with_holes")
			}
		}
		addGroup(grp)
		// several outers: swallow the next group as well
		if gi+1 < len(groups) && r.Chance(0.4) {
			gi++
			addGroup(groups[gi])
			in.label("mp_several_outers")
		}
		// node members and relation members do not contribute rings
		if r.Chance(0.3) {
			at := r.Intn(len(members) + 1)
			m := osm.Member{Type: osm.ElementTypeNode, ID: osm.AnyID(core.Pick(r, allNodes)), Role: core.Pick(r, nodeRoles)}
			if r.Chance(0.3) {
				m.ID = osm.AnyID(7000 + r.Intn(50)) // missing node
			}
			members = append(members[:at], append([]osm.Member{m}, members[at:]...)...)
			in.label("mp_node_member")
		}
		if len(mps) > 0 && r.Chance(0.2) {
			members = append(members, osm.Member{Type: osm.ElementTypeRelation, ID: osm.AnyID(mps[0].id), Role: "subarea"})
			in.label("mp_relation_member")
		}
		broken := false
		if r.Chance(o.BrokenMP) {
			broken = true
			at := r.Intn(len(members) + 1)
			var m osm.Member
			if len(openWays) > 0 && r.Bool() {
				m = osm.Member{Type: osm.ElementTypeWay, ID: osm.AnyID(core.Pick(r, openWays)), Role: core.Pick(r, []string{"outer", "inner"})}
				in.label("mp_open_way")
			} else {
				m = osm.Member{Type: osm.ElementTypeWay, ID: missingWay(), Role: core.Pick(r, []string{"outer", "inner"})}
				in.label("mp_missing_way")
			}
			members = append(members[:at], append([]osm.Member{m}, members[at:]...)...)
		}
		tags := g.tags(0.8, 3)
		at := r.Intn(len(tags) + 1)
		tags = append(tags[:at:at], append(osm.Tags{{Key: "type", Value: "multipolygon"}}, tags[at:]...)...)
		id := osm.RelationID(g.newID(osm.ElementTypeRelation))
		in.Relations = append(in.Relations, osm.Relation{ID: id, Members: members, Tags: tags})
		mps = append(mps, mpInfo{id, broken})
		in.label("multipolygon")
		// a second multipolygon over the same ways (adjacent land uses share their boundary ways)
		if r.Chance(o.SharedWays) {
			tags2 := g.tags(0.8, 3)
			at := r.Intn(len(tags2) + 1)
			tags2 = append(tags2[:at:at], append(osm.Tags{{Key: "type", Value: "multipolygon"}}, tags2[at:]...)...)
			id2 := osm.RelationID(g.newID(osm.ElementTypeRelation))
			in.Relations = append(in.Relations, osm.Relation{ID: id2, Members: append([]osm.Member{}, members...), Tags: tags2})
			mps = append(mps, mpInfo{id2, broken})
			in.label("multipolygon")
			in.label("mp_shares_ways")
		}
	}

	// 5. plain relations (acyclic: a relation only refers to earlier ones)
	var plain []osm.RelationID
	var closedWays []osm.WayID
	for _, grp := range groups {
		closedWays = append(closedWays, grp.outer)
		closedWays = append(closedWays, grp.inners...)
	}
	roles := []string{"", "stop", "platform", "outer", "inner", "from", "to", "via", "forward"}
	types := []string{"route", "restriction", "site", "boundary", "Multipolygon", "multipolygon "}
	nplain := r.Range(0, 4)
	for ri := 0; ri < nplain; ri++ {
		nm := r.Range(0, 6)
		var members []osm.Member
		for mi := 0; mi < nm; mi++ {
			role := core.Pick(r, roles)
			switch x := r.Intn(12); {
			case x < 2:
				members = append(members, osm.Member{Type: osm.ElementTypeNode, ID: osm.AnyID(core.Pick(r, allNodes)), Role: role})
				in.label("rel_member_node")
			case x < 3:
				members = append(members, osm.Member{Type: osm.ElementTypeNode, ID: osm.AnyID(7000 + r.Intn(50)), Role: role})
				in.label("rel_member_missing_node")
			case x < 5 && len(openWays) > 0:
				members = append(members, osm.Member{Type: osm.ElementTypeWay, ID: osm.AnyID(core.Pick(r, openWays)), Role: role})
				in.label("rel_member_open_way")
			case x < 7 && len(closedWays) > 0:
				members = append(members, osm.Member{Type: osm.ElementTypeWay, ID: osm.AnyID(core.Pick(r, closedWays)), Role: role})
				in.label("rel_member_closed_way")
			case x < 8:
				members = append(members, osm.Member{Type: osm.ElementTypeWay, ID: missingWay(), Role: role})
				in.label("rel_member_missing_way")
			case x < 10 && len(mps) > 0:
				mp := core.Pick(r, mps)
				members = append(members, osm.Member{Type: osm.ElementTypeRelation, ID: osm.AnyID(mp.id), Role: role})
				in.label("rel_member_multipolygon")
				if mp.broken {
					in.label("rel_member_broken_multipolygon")
				}
			case x < 11 && len(plain) > 0:
				members = append(members, osm.Member{Type: osm.ElementTypeRelation, ID: osm.AnyID(core.Pick(r, plain)), Role: role})
				in.label("rel_member_relation")
			default:
				if r.Chance(0.3) {
					members = append(members, osm.Member{Type: osm.ElementTypeRelation, ID: osm.AnyID(9000 + r.Intn(50)), Role: role})
					in.label("rel_member_missing_relation")
				}
			}
		}
		// a member listed twice
		if len(members) > 0 && r.Chance(0.1) {
			members = append(members, members[r.Intn(len(members))])
			in.label("rel_member_twice")
		}
		tags := g.tags(0.7, 3)
		if r.Chance(0.8) {
			at := r.Intn(len(tags) + 1)
			tags = append(tags[:at:at], append(osm.Tags{{Key: "type", Value: core.Pick(r, types)}}, tags[at:]...)...)
		} else {
			in.label("rel_without_type")
		}
		id := osm.RelationID(g.newID(osm.ElementTypeRelation))
		in.Relations = append(in.Relations, osm.Relation{ID: id, Members: members, Tags: tags})
		plain = append(plain, id)
		in.label("plain_relation")
		if len(members) == 0 {
			in.label("rel_empty")
		}
	}

	// reserved keys: OSM uses path=desire and point=... as ordinary tags
	if r.Chance(o.Reserved) {
		if r.Bool() || len(openWays) == 0 {
			n := &in.Nodes[r.Intn(len(in.Nodes))]
			at := r.Intn(len(n.Tags) + 1)
			n.Tags = append(n.Tags[:at:at], append(osm.Tags{{Key: "point", Value: core.Pick(r, c29Values)}}, n.Tags[at:]...)...)
			in.label("reserved_point_key")
		} else {
			id := core.Pick(r, openWays)
			for i := range in.Ways {
				if in.Ways[i].ID == id {
					w := &in.Ways[i]
					at := r.Intn(len(w.Tags) + 1)
					w.Tags = append(w.Tags[:at:at], append(osm.Tags{{Key: "path", Value: core.Pick(r, []string{"desire", "yes", ""})}}, w.Tags[at:]...)...)
				}
			}
			in.label("reserved_path_key")
		}
	}

	// OSM files list elements in ID order
	sort.Slice(in.Nodes, func(i, j int) bool { return in.Nodes[i].ID < in.Nodes[j].ID })
	sort.Slice(in.Ways, func(i, j int) bool { return in.Ways[i].ID < in.Ways[j].ID })
	sort.Slice(in.Relations, func(i, j int) bool { return in.Relations[i].ID < in.Relations[j].ID })
	return in
}
