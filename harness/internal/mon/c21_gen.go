package mon

import (
	"strings"

	"diagonal.works/b6"
	"verif/internal/core"
)

// Type-directed program generator for C21/C22 (G-PROG in DESIGN.md).
//
// Programs are generated well-typed against the library's type schemes, so
// that most of them evaluate to a value; a minority get one injected fault
// (extra argument, dropped argument, wrongly typed argument, call of a
// non-function) so that the error paths are compared as well. The reference
// interpreter, not the generator, decides what the expected outcome is.

type c21tk uint8

const (
	tkInt c21tk = iota
	tkPair
	tkFn
	tkStr
	tkQry
	tkVar // only in schemes
)

type c21ty struct {
	k  c21tk
	a  *c21ty   // pair first
	b  *c21ty   // pair second
	ps []*c21ty // fn params
	r  *c21ty   // fn result
	v  int      // scheme variable
}

var (
	c21tInt = &c21ty{k: tkInt}
	c21tStr = &c21ty{k: tkStr}
	c21tQry = &c21ty{k: tkQry}
)

func c21tPair(a, b *c21ty) *c21ty          { return &c21ty{k: tkPair, a: a, b: b} }
func c21tFn(r *c21ty, ps ...*c21ty) *c21ty { return &c21ty{k: tkFn, ps: ps, r: r} }
func c21tVar(i int) *c21ty                 { return &c21ty{k: tkVar, v: i} }

func (t *c21ty) String() string {
	switch t.k {
	case tkInt:
		return "int"
	case tkStr:
		return "str"
	case tkQry:
		return "qry"
	case tkPair:
		return "<" + t.a.String() + "," + t.b.String() + ">"
	case tkFn:
		ps := make([]string, len(t.ps))
		for i, p := range t.ps {
			ps[i] = p.String()
		}
		return "(" + strings.Join(ps, ",") + ")->" + t.r.String()
	}
	return "?"
}

func c21tyEq(a, b *c21ty) bool {
	if a.k != b.k {
		return false
	}
	switch a.k {
	case tkPair:
		return c21tyEq(a.a, b.a) && c21tyEq(a.b, b.b)
	case tkFn:
		if len(a.ps) != len(b.ps) || !c21tyEq(a.r, b.r) {
			return false
		}
		for i := range a.ps {
			if !c21tyEq(a.ps[i], b.ps[i]) {
				return false
			}
		}
	}
	return true
}

// match a scheme against a concrete type, extending bind.
func c21match(s, t *c21ty, bind map[int]*c21ty) bool {
	if s.k == tkVar {
		if old, ok := bind[s.v]; ok {
			return c21tyEq(old, t)
		}
		bind[s.v] = t
		return true
	}
	if s.k != t.k {
		return false
	}
	switch s.k {
	case tkPair:
		return c21match(s.a, t.a, bind) && c21match(s.b, t.b, bind)
	case tkFn:
		if len(s.ps) != len(t.ps) {
			return false
		}
		for i := range s.ps {
			if !c21match(s.ps[i], t.ps[i], bind) {
				return false
			}
		}
		return c21match(s.r, t.r, bind)
	}
	return true
}

func c21subst(s *c21ty, bind map[int]*c21ty) *c21ty {
	switch s.k {
	case tkVar:
		return bind[s.v]
	case tkPair:
		return c21tPair(c21subst(s.a, bind), c21subst(s.b, bind))
	case tkFn:
		ps := make([]*c21ty, len(s.ps))
		for i, p := range s.ps {
			ps[i] = c21subst(p, bind)
		}
		return c21tFn(c21subst(s.r, bind), ps...)
	}
	return s
}

func c21vars(s *c21ty, out map[int]bool) {
	switch s.k {
	case tkVar:
		out[s.v] = true
	case tkPair:
		c21vars(s.a, out)
		c21vars(s.b, out)
	case tkFn:
		for _, p := range s.ps {
			c21vars(p, out)
		}
		c21vars(s.r, out)
	}
}

type c21scheme struct {
	name    string
	ps      []*c21ty
	r       *c21ty
	queries bool // only offered when the generator includes strings/queries
}

var c21schemes = func() []c21scheme {
	I := c21tInt
	A, B, C := c21tVar(0), c21tVar(1), c21tVar(2)
	return []c21scheme{
		{name: "add", ps: []*c21ty{I, I}, r: I},
		{name: "sub", ps: []*c21ty{I, I}, r: I},
		{name: "mul", ps: []*c21ty{I, I}, r: I},
		{name: "neg", ps: []*c21ty{I}, r: I},
		{name: "lin3", ps: []*c21ty{I, I, I}, r: I},
		{name: "seven", ps: nil, r: I},
		{name: "pair", ps: []*c21ty{A, B}, r: c21tPair(A, B)},
		{name: "first", ps: []*c21ty{c21tPair(A, B)}, r: A},
		{name: "second", ps: []*c21ty{c21tPair(A, B)}, r: B},
		{name: "apply", ps: []*c21ty{c21tFn(B, A), A}, r: B},
		{name: "app2", ps: []*c21ty{c21tFn(C, A, B), A, B}, r: C},
		{name: "apply2", ps: []*c21ty{c21tFn(C, B), c21tFn(B, A), A}, r: C},
		{name: "both", ps: []*c21ty{c21tFn(B, A), c21tFn(C, A), A}, r: c21tPair(B, C)},
		{name: "twice", ps: []*c21ty{c21tFn(A, A), A}, r: A},
		{name: "compose", ps: []*c21ty{c21tFn(C, B), c21tFn(B, A)}, r: c21tFn(C, A)},
		{name: "applyi", ps: []*c21ty{c21tFn(A, I), I}, r: A},
		{name: "keyed", ps: []*c21ty{c21tStr}, r: c21tQry, queries: true},
		{name: "tagged", ps: []*c21ty{c21tStr, c21tStr}, r: c21tQry, queries: true},
		{name: "typed", ps: []*c21ty{c21tStr, c21tQry}, r: c21tQry, queries: true},
		{name: "and", ps: []*c21ty{c21tQry, c21tQry}, r: c21tQry, queries: true},
		{name: "or", ps: []*c21ty{c21tQry, c21tQry}, r: c21tQry, queries: true},
	}
}()

type c21var struct {
	name string
	t    *c21ty
}

type c21gen struct {
	r        *core.R
	nodes    int
	maxNodes int
	queries  bool    // include strings and queries (C22)
	eta      float64 // probability that a lambda gets an eta-style body (C22)
	inject   int     // faults still to inject
	nparams  int     // lambda parameters so far (the VM has 32 slots)
	shapes   map[string]int
}

func (g *c21gen) shape(s string) { g.shapes[s]++ }

var c21paramNames = []string{"x", "y", "z", "f", "g", "h", "a", "b"}
var c21globalishNames = []string{"add", "neg", "pair", "apply", "sub", "first", "keyed", "and"}
var c21strPool = []string{"#building", "yes", "area", "point", "#amenity", "cafe", "name", "path", "bogus", ""}

func (g *c21gen) randTy(d int) *c21ty {
	if d <= 0 {
		if g.queries && g.r.Chance(0.3) {
			if g.r.Bool() {
				return c21tStr
			}
			return c21tQry
		}
		return c21tInt
	}
	x := g.r.Intn(100)
	switch {
	case x < 50:
		if g.queries && g.r.Chance(0.35) {
			if g.r.Chance(0.4) {
				return c21tStr
			}
			return c21tQry
		}
		return c21tInt
	case x < 70:
		return c21tPair(g.randTy(d-1), g.randTy(d-1))
	default:
		n := 1
		if g.r.Chance(0.35) {
			n = 2
		}
		ps := make([]*c21ty, n)
		for i := range ps {
			ps[i] = g.randTy(d - 1)
		}
		return c21tFn(g.randTy(d-1), ps...)
	}
}

// visible variables, innermost first, shadowed ones removed
func c21visible(env []c21var) []c21var {
	var out []c21var
	seen := map[string]bool{}
	for i := len(env) - 1; i >= 0; i-- {
		if !seen[env[i].name] {
			seen[env[i].name] = true
			out = append(out, env[i])
		}
	}
	return out
}

func c21shadowed(env []c21var, name string) bool {
	for _, v := range env {
		if v.name == name {
			return true
		}
	}
	return false
}

func (g *c21gen) varOf(env []c21var, t *c21ty) *c21node {
	var cands []c21var
	for _, v := range c21visible(env) {
		if c21tyEq(v.t, t) {
			cands = append(cands, v)
		}
	}
	if len(cands) == 0 {
		return nil
	}
	return c21SymN(core.Pick(g.r, cands).name)
}

func (g *c21gen) intLit() *c21node {
	g.nodes++
	switch g.r.Intn(12) {
	case 0:
		return c21IntN(0)
	case 1:
		return c21IntN(-1)
	case 2:
		return c21IntN(g.r.Range(-1000000, 1000000))
	}
	return c21IntN(g.r.Range(-3, 9))
}

func (g *c21gen) qryLit(d int) b6.Query {
	if d <= 0 || g.r.Chance(0.6) {
		if g.r.Bool() {
			return b6.Keyed{Key: core.Pick(g.r, c21strPool[:5])}
		}
		return b6.Tagged{Key: core.Pick(g.r, c21strPool[:5]), Value: b6.NewStringExpression(core.Pick(g.r, c21strPool))}
	}
	switch g.r.Intn(3) {
	case 0:
		return b6.Intersection{g.qryLit(d - 1), g.qryLit(d - 1)}
	case 1:
		return b6.Union{g.qryLit(d - 1), g.qryLit(d - 1)}
	}
	return b6.Typed{Type: b6.FeatureTypeFromString(core.Pick(g.r, []string{"point", "path", "area", "relation"})), Query: g.qryLit(d - 1)}
}

// a small expression of type t
func (g *c21gen) leaf(env []c21var, t *c21ty) *c21node {
	if g.r.Chance(0.5) {
		if v := g.varOf(env, t); v != nil {
			g.nodes++
			return v
		}
	}
	switch t.k {
	case tkInt:
		return g.intLit()
	case tkStr:
		g.nodes++
		return c21StrN(core.Pick(g.r, c21strPool))
	case tkQry:
		g.nodes++
		return c21QryN(g.qryLit(2))
	case tkPair:
		if !c21shadowed(env, "pair") {
			g.nodes++
			return g.mkCall(env, c21SymN("pair"), []*c21node{g.leaf(env, t.a), g.leaf(env, t.b)}, false)
		}
		// pair is shadowed: build the pair through a variable-free lambda trick is not possible; use any variable or give up on shadowing
		if v := g.varOf(env, t); v != nil {
			g.nodes++
			return v
		}
		// unreachable in practice: names of the pool that shadow "pair" are only chosen when no pair type is needed below; fall back to a call anyway
		g.nodes++
		return g.mkCall(env, c21SymN("pair"), []*c21node{g.leaf(env, t.a), g.leaf(env, t.b)}, false)
	case tkFn:
		if g.r.Chance(0.4) {
			if s := g.builtinValue(env, t); s != nil {
				return s
			}
		}
		return g.lambda(env, t, 0)
	}
	panic("leaf")
}

// a global function symbol whose type is exactly t
func (g *c21gen) builtinValue(env []c21var, t *c21ty) *c21node {
	var cands []string
	for _, s := range c21schemes {
		if s.queries && !g.queries {
			continue
		}
		if c21shadowed(env, s.name) {
			continue
		}
		bind := map[int]*c21ty{}
		if c21match(c21tFn(s.r, s.ps...), t, bind) {
			cands = append(cands, s.name)
		}
	}
	// the variadic sum is a function of any number of ints
	if !c21shadowed(env, "sum") && t.r.k == tkInt && len(t.ps) >= 1 {
		ok := true
		for _, p := range t.ps {
			if p.k != tkInt {
				ok = false
			}
		}
		if ok {
			cands = append(cands, "sum")
		}
	}
	if len(cands) == 0 {
		return nil
	}
	g.nodes++
	g.shape("builtin_as_value")
	return c21SymN(core.Pick(g.r, cands))
}

func (g *c21gen) freshParams(env []c21var, n int) []string {
	names := make([]string, 0, n)
	for len(names) < n {
		var name string
		switch {
		case g.r.Chance(0.06):
			name = core.Pick(g.r, c21globalishNames)
		case g.r.Chance(0.3) && len(env) > 0:
			name = core.Pick(g.r, env).name // deliberate shadowing
		default:
			name = core.Pick(g.r, c21paramNames)
		}
		dup := false
		for _, o := range names {
			if o == name {
				dup = true
			}
		}
		if !dup {
			names = append(names, name)
		}
	}
	return names
}

// a lambda literal of type t (a function type)
func (g *c21gen) lambda(env []c21var, t *c21ty, d int) *c21node {
	g.nodes++
	names := g.freshParams(env, len(t.ps))
	g.nparams += len(names)
	inner := append([]c21var{}, env...)
	for i, n := range names {
		inner = append(inner, c21var{n, t.ps[i]})
	}
	var body *c21node
	if g.eta > 0 && len(names) > 0 && d >= 0 && g.nodes < g.maxNodes && g.r.Chance(g.eta) {
		body = g.etaBody(inner, names, t, d)
	} else {
		body = g.gen(inner, t.r, d)
	}
	return c21LamN(names, body)
}

// etaBody builds a body of the form (F arg1 .. argn) in which the arguments
// are mostly the lambda's own parameters: in order, out of order, repeated,
// partly, or not at all — the shapes simplifyLambda looks at.
func (g *c21gen) etaBody(env []c21var, names []string, t *c21ty, d int) *c21node {
	np := len(names)
	var argNames []int // index into names, -1 = some other expression
	switch g.r.Intn(9) {
	case 0, 1: // exactly the parameters in order
		for i := 0; i < np; i++ {
			argNames = append(argNames, i)
		}
		g.shape("eta_exact")
	case 2: // a proper prefix of the parameters (drops the rest)
		k := g.r.Range(1, np)
		for i := 0; i < k; i++ {
			argNames = append(argNames, i)
		}
		if k < np {
			g.shape("eta_drops_parameter")
		} else {
			g.shape("eta_exact")
		}
	case 3: // parameters in order, then a repeated parameter
		for i := 0; i < np; i++ {
			argNames = append(argNames, i)
		}
		argNames = append(argNames, g.r.Intn(np))
		g.shape("eta_repeats_parameter")
	case 4: // parameters in order, then other arguments
		for i := 0; i < np; i++ {
			argNames = append(argNames, i)
		}
		argNames = append(argNames, -1)
		if g.r.Chance(0.3) {
			argNames = append(argNames, -1)
		}
		g.shape("eta_extra_arguments")
	case 5: // out of order
		for _, i := range g.r.Perm(np) {
			argNames = append(argNames, i)
		}
		g.shape("eta_permuted")
	case 6: // other argument first
		argNames = append(argNames, -1)
		for i := 0; i < np; i++ {
			argNames = append(argNames, i)
		}
		g.shape("eta_parameter_not_leading")
	case 7: // first parameter only, twice
		argNames = []int{0, 0}
		g.shape("eta_repeats_parameter")
	case 8: // prefix in order followed by an expression that uses a parameter
		argNames = append(argNames, 0, -2)
		g.shape("eta_parameter_in_later_argument")
	}
	if len(argNames) > 3 {
		argNames = argNames[:3]
	}
	// outer: the scope outside the lambda, in which the parameters are visible
	// as names (they shadow) but have no usable type, so that expressions
	// generated in it never mention them and never use a name they shadow.
	outer := append([]c21var{}, env[:len(env)-np]...)
	for i, n := range names {
		outer = append(outer, c21var{n, &c21ty{k: tkVar, v: 1000 + i}})
	}
	var pts []*c21ty
	var args []*c21node
	for _, a := range argNames {
		switch {
		case a >= 0:
			pts = append(pts, t.ps[a])
			g.nodes++
			args = append(args, c21SymN(names[a]))
		case a == -1:
			at := g.randTy(1)
			pts = append(pts, at)
			if g.r.Chance(0.15) && !c21shadowed(outer, "first") {
				// an argument whose evaluation fails: (first 4)
				g.nodes += 2
				g.shape("eta_extra_argument_fails")
				args = append(args, g.mkCallRaw(c21SymN("first"), []*c21node{c21IntN(4)}, false))
			} else {
				args = append(args, g.gen(outer, at, 0))
			}
		default:
			// an argument that uses the first parameter: (F' p0)
			at := g.randTy(1)
			pts = append(pts, at)
			g.nodes += 2
			args = append(args, g.mkCallRaw(g.fnExpr(outer, c21tFn(at, t.ps[0]), 0), []*c21node{c21SymN(names[0])}, false))
		}
	}
	// the function part: usually closed with respect to the parameters,
	// sometimes it may mention them
	fenv2 := outer
	if g.r.Chance(0.2) {
		fenv2 = env
		g.shape("eta_function_may_mention_parameter")
	}
	f := g.fnExpr(fenv2, c21tFn(t.r, pts...), d)
	return g.mkCallRaw(f, args, false)
}

func (g *c21gen) gen(env []c21var, t *c21ty, d int) *c21node {
	if d <= 0 || g.nodes >= g.maxNodes {
		return g.leaf(env, t)
	}
	if g.r.Chance(0.18) {
		return g.leaf(env, t)
	}
	if t.k == tkFn && g.r.Chance(0.45) {
		return g.lambda(env, t, d-1)
	}
	if n := g.callTo(env, t, d); n != nil {
		return n
	}
	return g.leaf(env, t)
}

// fnExpr: an expression of function type t, any shape
func (g *c21gen) fnExpr(env []c21var, t *c21ty, d int) *c21node {
	x := g.r.Intn(100)
	switch {
	case x < 30:
		if s := g.builtinValue(env, t); s != nil {
			return s
		}
	case x < 45:
		if v := g.varOf(env, t); v != nil {
			g.nodes++
			return v
		}
	case x < 65 && d > 0:
		if c := g.callTo(env, t, d); c != nil {
			return c
		}
	}
	return g.lambda(env, t, d-1)
}

// fnCall: an expression of function type t that is a call node
func (g *c21gen) fnCall(env []c21var, t *c21ty, d int) *c21node {
	for try := 0; try < 4; try++ {
		if c := g.callTo(env, t, d); c != nil && c.kind == c21Call {
			return c
		}
	}
	// ((lambda) ) with no arguments: a call node equivalent to the lambda
	g.nodes++
	g.shape("zero_arg_call_of_lambda")
	return g.mkCallRaw(g.lambda(env, t, d-1), nil, false)
}

func (g *c21gen) args(env []c21var, pts []*c21ty, d int) []*c21node {
	out := make([]*c21node, len(pts))
	for i, p := range pts {
		out[i] = g.gen(env, p, d)
	}
	return out
}

// callTo: a call node whose value has type t
func (g *c21gen) callTo(env []c21var, t *c21ty, d int) *c21node {
	d--
	for try := 0; try < 6; try++ {
		x := g.r.Intn(100)
		if try == 0 && g.r.Chance(0.3) {
			x = 80 // prefer calling a parameter when one fits
		}
		switch {
		case x < 14: // a lambda literal applied directly
			n := g.r.Range(0, 2)
			pts := make([]*c21ty, n)
			for i := range pts {
				pts[i] = g.randTy(1)
			}
			g.nodes++
			g.shape("lambda_literal_call")
			args := g.args(env, pts, d)
			return g.mkCall(env, g.lambda(env, c21tFn(t, pts...), d), args, false)
		case x < 52: // a library function, fully applied
			if c := g.builtinCall(env, t, d, 0); c != nil {
				return c
			}
		case x < 62: // pipeline: x | F
			at := g.randTy(1)
			g.nodes++
			g.shape("pipeline")
			lhs := g.gen(env, at, d)
			var f *c21node
			if g.r.Chance(0.6) {
				f = g.fnCall(env, c21tFn(t, at), d)
			} else {
				f = g.fnExpr(env, c21tFn(t, at), d)
			}
			return g.mkCall(env, f, []*c21node{lhs}, true)
		case x < 74: // the function is itself a call
			n := g.r.Range(1, 2)
			pts := make([]*c21ty, n)
			for i := range pts {
				pts[i] = g.randTy(1)
			}
			g.nodes++
			g.shape("call_of_call")
			args := g.args(env, pts, d)
			return g.mkCall(env, g.fnCall(env, c21tFn(t, pts...), d), args, false)
		case x < 84: // a parameter in function position
			var cands []c21var
			for _, v := range c21visible(env) {
				if v.t.k == tkFn && c21tyEq(v.t.r, t) && len(v.t.ps) > 0 {
					cands = append(cands, v)
				}
			}
			if len(cands) > 0 {
				v := core.Pick(g.r, cands)
				g.nodes += 2
				g.shape("parameter_call")
				return g.mkCall(env, c21SymN(v.name), g.args(env, v.t.ps, d), false)
			}
		default: // under-application: only possible when a function is wanted
			if t.k == tkFn {
				if c := g.partial(env, t, d); c != nil {
					return c
				}
			}
		}
	}
	return nil
}

// builtinCall: (name args..) of type t; extra > 0 leaves the last `extra`
// parameters of the scheme unapplied... (used by partial).
func (g *c21gen) builtinCall(env []c21var, t *c21ty, d int, _ int) *c21node {
	type cand struct {
		s    c21scheme
		bind map[int]*c21ty
	}
	var cands []cand
	for _, s := range c21schemes {
		if s.queries && !g.queries {
			continue
		}
		if c21shadowed(env, s.name) {
			continue
		}
		bind := map[int]*c21ty{}
		if c21match(s.r, t, bind) {
			cands = append(cands, cand{s, bind})
		}
	}
	if t.k == tkInt && !c21shadowed(env, "sum") && g.r.Chance(0.15) {
		n := g.r.Range(0, 4)
		pts := make([]*c21ty, n)
		for i := range pts {
			pts[i] = c21tInt
		}
		g.nodes++
		g.shape("variadic_call")
		return g.mkCall(env, c21SymN("sum"), g.args(env, pts, d), false)
	}
	if len(cands) == 0 {
		return nil
	}
	c := core.Pick(g.r, cands)
	// give the remaining scheme variables small random types
	vs := map[int]bool{}
	for _, p := range c.s.ps {
		c21vars(p, vs)
	}
	for v := 0; v < 3; v++ {
		if vs[v] {
			if _, ok := c.bind[v]; !ok {
				c.bind[v] = g.randTy(1)
			}
		}
	}
	pts := make([]*c21ty, len(c.s.ps))
	for i, p := range c.s.ps {
		pts[i] = c21subst(p, c.bind)
	}
	g.nodes++
	if len(pts) == 0 {
		g.shape("zero_arity_call")
	}
	return g.mkCall(env, c21SymN(c.s.name), g.args(env, pts, d), false)
}

// partial: an under-applied call of type t = (ps)->r. The source function has
// parameters ps ++ us; the call supplies us (they bind the trailing parameters).
func (g *c21gen) partial(env []c21var, t *c21ty, d int) *c21node {
	m := 1
	if g.r.Chance(0.3) {
		m = 2
	}
	// library candidates
	type cand struct {
		name string
		us   []*c21ty
	}
	var cands []cand
	for _, s := range c21schemes {
		if s.queries && !g.queries {
			continue
		}
		if c21shadowed(env, s.name) || len(s.ps) <= len(t.ps) {
			continue
		}
		k := len(s.ps) - len(t.ps)
		bind := map[int]*c21ty{}
		if !c21match(c21tFn(s.r, s.ps[:len(t.ps)]...), t, bind) {
			continue
		}
		vs := map[int]bool{}
		for _, p := range s.ps {
			c21vars(p, vs)
		}
		for v := 0; v < 3; v++ {
			if vs[v] {
				if _, ok := bind[v]; !ok {
					bind[v] = g.randTy(1)
				}
			}
		}
		us := make([]*c21ty, k)
		for i := range us {
			us[i] = c21subst(s.ps[len(t.ps)+i], bind)
		}
		cands = append(cands, cand{s.name, us})
	}
	x := g.r.Intn(100)
	if x < 45 && len(cands) > 0 {
		c := core.Pick(g.r, cands)
		g.nodes++
		g.shape("partial_of_library_function")
		if len(c.us) >= 2 && g.r.Chance(0.5) {
			// apply the trailing arguments one at a time: ((f c) b)
			g.nodes++
			g.shape("partial_twice")
			inner := g.mkCall(env, c21SymN(c.name), g.args(env, c.us[len(c.us)-1:], d), false)
			return g.mkCall(env, inner, g.args(env, c.us[:len(c.us)-1], d), false)
		}
		return g.mkCall(env, c21SymN(c.name), g.args(env, c.us, d), false)
	}
	us := make([]*c21ty, m)
	for i := range us {
		us[i] = g.randTy(1)
	}
	full := c21tFn(t.r, append(append([]*c21ty{}, t.ps...), us...)...)
	g.nodes++
	if m == 2 && g.r.Chance(0.6) {
		g.nodes++
		g.shape("partial_twice")
		var f *c21node
		if x < 75 {
			f = g.lambda(env, full, d)
		} else {
			f = g.fnExpr(env, full, d)
		}
		inner := g.mkCall(env, f, g.args(env, us[1:], d), false)
		return g.mkCall(env, inner, g.args(env, us[:1], d), false)
	}
	if x < 75 {
		g.shape("partial_of_lambda")
		return g.mkCall(env, g.lambda(env, full, d), g.args(env, us, d), false)
	}
	g.shape("partial_of_expression")
	return g.mkCall(env, g.fnExpr(env, full, d), g.args(env, us, d), false)
}

func (g *c21gen) wrongKind(env []c21var, n *c21node) *c21node {
	// something whose kind differs from n's apparent kind
	switch n.kind {
	case c21Int:
		if g.r.Bool() {
			return c21LamN([]string{"w"}, c21SymN("w"))
		}
		return c21CallN(c21SymN("pair"), c21IntN(1), c21IntN(2))
	case c21Lam:
		return c21IntN(5)
	}
	if g.r.Bool() {
		return c21IntN(4)
	}
	return c21LamN([]string{"w", "v"}, c21SymN("w"))
}

func (g *c21gen) mkCallRaw(f *c21node, args []*c21node, piped bool) *c21node {
	return &c21node{kind: c21Call, fn: f, args: args, piped: piped}
}

// mkCall builds the call and, while faults remain to be injected, sometimes
// breaks it.
func (g *c21gen) mkCall(env []c21var, f *c21node, args []*c21node, piped bool) *c21node {
	if g.inject > 0 && g.r.Chance(0.25) {
		g.inject--
		switch g.r.Intn(5) {
		case 0:
			g.shape("fault_extra_argument")
			g.nodes++
			args = append(append([]*c21node{}, args...), c21IntN(g.r.Range(0, 3)))
		case 1:
			if len(args) >= 1 && !piped {
				g.shape("fault_dropped_argument")
				args = args[:len(args)-1]
			} else {
				g.shape("fault_extra_argument")
				g.nodes++
				args = append(append([]*c21node{}, args...), c21IntN(1))
			}
		case 2:
			if len(args) >= 1 {
				g.shape("fault_wrong_argument")
				i := g.r.Intn(len(args))
				args = append([]*c21node{}, args...)
				args[i] = g.wrongKind(env, args[i])
			}
		case 3:
			if len(args) >= 1 {
				g.shape("fault_call_non_function")
				switch g.r.Intn(3) {
				case 0:
					f = c21CallN(c21SymN("pair"), c21IntN(1), c21IntN(2))
				case 1:
					f = c21CallN(c21SymN("seven"))
				default:
					f = c21IntN(3)
				}
			}
		case 4:
			if len(args) >= 2 {
				g.shape("fault_swapped_arguments")
				args = append([]*c21node{}, args...)
				args[0], args[len(args)-1] = args[len(args)-1], args[0]
			}
		}
	}
	return g.mkCallRaw(f, args, piped)
}
