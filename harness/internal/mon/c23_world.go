package mon

import (
	"fmt"
	"sort"
	"strings"

	"diagonal.works/b6"
	"diagonal.works/b6/ingest"
	"github.com/golang/geo/s2"
)

// Shared by C23, C26 and C40: a small world built feature by feature, and
// short constructors for expressions (requests are built as expression trees
// and sent as protos, as a gRPC client does).

const fNS = b6.Namespace("verif.test/f")

func fPointID(v uint64) b6.FeatureID {
	return b6.FeatureID{Type: b6.FeatureTypePoint, Namespace: fNS, Value: v}
}
func fPathID(v uint64) b6.FeatureID {
	return b6.FeatureID{Type: b6.FeatureTypePath, Namespace: fNS, Value: v}
}
func fAreaID(v uint64) b6.FeatureID {
	return b6.FeatureID{Type: b6.FeatureTypeArea, Namespace: fNS, Value: v}
}
func fRelationID(v uint64) b6.FeatureID {
	return b6.FeatureID{Type: b6.FeatureTypeRelation, Namespace: fNS, Value: v}
}
func fCollectionID(v uint64) b6.FeatureID {
	return b6.FeatureID{Type: b6.FeatureTypeCollection, Namespace: fNS, Value: v}
}

func fPoint(v uint64, lat, lng float64, tags ...b6.Tag) *ingest.GenericFeature {
	f := &ingest.GenericFeature{ID: fPointID(v),
		Tags: []b6.Tag{{Key: b6.PointTag, Value: b6.NewPointExpressionFromLatLng(s2.LatLngFromDegrees(lat, lng))}}}
	f.Tags = append(f.Tags, tags...)
	return f
}

func fPath(v uint64, points []uint64, tags ...b6.Tag) *ingest.GenericFeature {
	f := &ingest.GenericFeature{ID: fPathID(v)}
	for i, p := range points {
		f.ModifyOrAddTagAt(b6.Tag{Key: b6.PathTag, Value: b6.NewFeatureIDExpression(fPointID(p))}, i)
	}
	for _, t := range tags {
		f.AddTag(t)
	}
	return f
}

func fStrTag(k, v string) b6.Tag { return b6.Tag{Key: k, Value: b6.NewStringExpression(v)} }

// fSmallFeatures is the fixed content of the "small" world: 8 points, an open
// path, a closed path with its area, a second path crossing the first, a
// relation and a collection.
func fSmallFeatures() []ingest.Feature {
	fs := []ingest.Feature{
		fPoint(1, 51.5350, -0.1250, fStrTag("#amenity", "cafe"), fStrTag("name", "one")),
		fPoint(2, 51.5352, -0.1246),
		fPoint(3, 51.5354, -0.1242, fStrTag("#highway", "crossing")),
		fPoint(4, 51.5360, -0.1250),
		fPoint(5, 51.5360, -0.1240),
		fPoint(6, 51.5366, -0.1245, fStrTag("#entrance", "yes")),
		fPoint(7, 51.5356, -0.1255, fStrTag("#amenity", "bench")),
		fPoint(8, 51.5348, -0.1238),
		fPath(1, []uint64{1, 2, 3}, fStrTag("#highway", "footway"), fStrTag("name", "first")),
		fPath(2, []uint64{4, 5, 6, 4}, fStrTag("#building", "yes")),
		fPath(3, []uint64{7, 2, 8}, fStrTag("#highway", "residential")),
	}
	area := ingest.NewAreaFeature(1)
	area.AreaID = fAreaID(2).ToAreaID()
	area.SetPathIDs(0, []b6.FeatureID{fPathID(2)})
	area.AddTag(fStrTag("#building", "yes"))
	area.AddTag(fStrTag("building:levels", "3"))
	fs = append(fs, area)
	rel := ingest.NewRelationFeature(2)
	rel.RelationID = fRelationID(1).ToRelationID()
	rel.Members = []b6.RelationMember{{ID: fPathID(1), Role: "outer"}, {ID: fPointID(6), Role: "stop"}}
	rel.AddTag(fStrTag("#route", "bus"))
	fs = append(fs, rel)
	fs = append(fs, &ingest.CollectionFeature{
		CollectionID: fCollectionID(1).ToCollectionID(),
		Keys:         []any{"a", "b"},
		Values:       []any{1, 2},
		Tags:         []b6.Tag{fStrTag("name", "coll")},
	})
	fs = append(fs, &ingest.CollectionFeature{
		CollectionID: fCollectionID(2).ToCollectionID(),
		Keys:         []any{fPointID(1), fPathID(1), fPointID(900)},
		Values:       []any{"x", "y", "z"},
	})
	fs = append(fs, &ingest.GenericFeature{
		ID:   b6.FeatureID{Type: b6.FeatureTypeExpression, Namespace: fNS, Value: 1},
		Tags: []b6.Tag{{Key: b6.ExpressionTag, Value: xCall("find", xCall("keyed", xStr("#amenity")))}},
	})
	return fs
}

func fSmallIDs() []b6.FeatureID {
	var ids []b6.FeatureID
	for _, f := range fSmallFeatures() {
		ids = append(ids, f.FeatureID())
	}
	return ids
}

// fFill adds the small world's features to w; a failure is a harness bug.
func fFill(w ingest.MutableWorld) {
	for _, f := range fSmallFeatures() {
		if err := w.AddFeature(f); err != nil {
			panic(fmt.Sprintf("harness: cannot build the small world: %s: %v", f.FeatureID(), err))
		}
	}
}

func fSmallBasicWorld() *ingest.BasicMutableWorld {
	w := ingest.NewBasicMutableWorld()
	fFill(w)
	return w
}

// fDumpFeature renders what a user can read of one feature: presence, tags as a
// sorted map, references.
func fDumpFeature(w b6.World, id b6.FeatureID) string {
	f := w.FindFeatureByID(id)
	if f == nil {
		return id.String() + ":absent"
	}
	var ts []string
	for _, t := range f.AllTags() {
		ts = append(ts, t.Key+"="+t.Value.String())
	}
	sort.Strings(ts)
	var refs []string
	for _, r := range f.References() {
		refs = append(refs, r.Source().String())
	}
	return id.String() + ":{" + strings.Join(ts, ",") + "}refs[" + strings.Join(refs, ",") + "]"
}

func fDump(w b6.World, ids []b6.FeatureID) string {
	var sb strings.Builder
	for _, id := range ids {
		sb.WriteString(fDumpFeature(w, id))
		sb.WriteByte('\n')
	}
	return sb.String()
}

// ---- expression constructors

func xSym(s string) b6.Expression { return b6.NewSymbolExpression(s) }
func xCall(fn string, args ...b6.Expression) b6.Expression {
	return b6.NewCallExpression(xSym(fn), args)
}
func xID(id b6.FeatureID) b6.Expression { return b6.NewFeatureIDExpression(id) }
func xStr(s string) b6.Expression       { return b6.NewStringExpression(s) }
func xInt(i int) b6.Expression          { return b6.NewIntExpression(i) }
func xFloat(f float64) b6.Expression    { return b6.NewFloatExpression(f) }
func xBool(v bool) b6.Expression        { return b6.Expression{AnyExpression: b6.BoolExpression(v)} }
func xTag(k, v string) b6.Expression {
	return b6.Expression{AnyExpression: b6.TagExpression(b6.Tag{Key: k, Value: b6.NewStringExpression(v)})}
}
func xLL(lat, lng float64) b6.Expression {
	return b6.NewPointExpressionFromLatLng(s2.LatLngFromDegrees(lat, lng))
}
func xLambda(args []string, body b6.Expression) b6.Expression {
	return b6.NewLambdaExpression(args, body)
}

// xPairs builds `collection (pair k0 v0) (pair k1 v1) ...`.
func xPairs(kv ...b6.Expression) b6.Expression {
	var args []b6.Expression
	for i := 0; i+1 < len(kv); i += 2 {
		args = append(args, xCall("pair", kv[i], kv[i+1]))
	}
	return xCall("collection", args...)
}

// xLitColl builds a literal collection of literal keys and values.
func xLitColl(keys []any, values []any) b6.Expression {
	return b6.NewCollectionExpression(b6.ArrayCollection[any, any]{Keys: keys, Values: values}.Collection())
}
