//go:build !race

package mon

const c28raceBuild = false
