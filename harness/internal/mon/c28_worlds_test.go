package mon

import (
	"bytes"
	"testing"

	"diagonal.works/b6"
	"diagonal.works/b6/encoding"
	"diagonal.works/b6/ingest"
	"diagonal.works/b6/osm"
)

func c28count(w b6.World, t *testing.T) int {
	n := 0
	if err := w.EachFeature(func(f b6.Feature, g int) error { n++; return nil }, &b6.EachFeatureOptions{Goroutines: 1}); err != nil {
		t.Fatal(err)
	}
	return n
}

// The subjects must enumerate exactly n items in a clean run.
func TestC28Subjects(t *testing.T) {
	for n := 1; n <= 24; n++ {
		if got := len(c28features(n)); got != n {
			t.Errorf("features(%d) = %d", n, got)
		}
		for name, w := range map[string]b6.World{"basic": c28basic(n), "basic-mutable": c28basicMutable(n), "mutable-overlay": c28mutableOverlay(n),
			"tags-overlay": c28tagsOverlay(n), "overlay": c28overlay(n)} {
			if got := c28count(w, t); got != n {
				t.Errorf("%s(%d) enumerates %d", name, n, got)
			}
		}
		mt := 0
		c28modifiedTags(n).EachModifiedTag(func(ingest.ModifiedTag, int) error { mt++; return nil }, &b6.EachFeatureOptions{Goroutines: 1})
		if mt != n {
			t.Errorf("modifiedTags(%d) = %d", n, mt)
		}
		mf := 0
		c28modifiedFeatures(n).EachModifiedFeature(func(b6.Feature, int) error { mf++; return nil }, &b6.EachFeatureOptions{Goroutines: 1})
		if mf != n {
			t.Errorf("modifiedFeatures(%d) = %d", n, mf)
		}
		for shape := 0; shape < 3; shape++ {
			m, bits, ids := c28map(n, shape)
			calls := 0
			buckets := map[uint64]bool{}
			m.EachItem(func(id uint64, tagged []encoding.Tagged, g int) error {
				calls++
				buckets[id&(1<<bits-1)] = true
				return nil
			}, 1)
			if calls != n || len(ids) != n {
				t.Errorf("map(%d,%d) calls %d", n, shape, calls)
			}
			if n == 24 {
				t.Logf("map shape %d: bits %d, %d buckets used", shape, bits, len(buckets))
			}
		}
		f := c28pbf(n)
		pn := 0
		seen := map[int]bool{}
		order := []int{}
		err := osm.ReadPBFWithOptions(bytes.NewReader(f.data), func(e osm.Element, g int) error {
			pn++
			b, ok := f.blobOf[c28pbfKey(e)]
			if !ok {
				t.Errorf("unknown element %s", c28pbfKey(e))
			}
			if !seen[b] {
				order = append(order, b)
			}
			seen[b] = true
			return nil
		}, osm.ReadOptions{Cores: 1})
		if err != nil || pn != n || len(seen) != f.blobs {
			t.Errorf("pbf(%d): err %v, %d elements, %d blobs seen of %d", n, err, pn, len(seen), f.blobs)
		}
		for i, b := range order {
			if i != b {
				t.Errorf("pbf(%d): blob order %v", n, order)
				break
			}
		}
		if n == 24 || n == 3 {
			t.Logf("pbf(%d): %d blobs", n, f.blobs)
		}
	}
	cw := c28compact()
	byType := map[b6.FeatureType]int{}
	cw.EachFeature(func(f b6.Feature, g int) error { byType[f.FeatureID().Type]++; return nil }, &b6.EachFeatureOptions{Goroutines: 1})
	t.Logf("compact: %d features %v", c28count(cw, t), byType)
}
