package mon

import (
	"math"
	"sort"

	pb "diagonal.works/b6/proto"
	"github.com/golang/geo/s2"
	"verif/internal/core"
)

// Generator of the protos a client can send (C19). Everything is built as a
// proto, the way the Python client (python/diagonal_b6) builds its requests:
// symbols, calls, lambdas, literals and query trees, with points on the E7 grid.

type c19gen struct {
	r     *core.R
	kinds map[string]int // what was generated, by kind
	// sub: the labelled sub-case of this case ("" = main list). Input classes
	// with a recorded finding are only generated inside their own sub-case.
	sub string
}

func (g *c19gen) note(kind string) { g.kinds[kind]++ }

var c19strings = []string{"", "a", "highway", "#amenity", "@name", "a b", "café", "日本", "\"quoted\"", "back\\slash", "line\nbreak", "tab\t", "\x00nul", "{x -> y}", "1", "51.5,-0.1", "/n/1", "a;b", " ", "\U0001F600"}
var c19symbols = []string{"find", "map", "pair", "collection", "add-ints", "x", "_x_140211", "get", "all-tags", "$", ""}
var c19names = []string{"", "", "", "result", "a name", "ü"}
var c19namespaces = []string{"openstreetmap.org/node", "openstreetmap.org/way", "openstreetmap.org/area", "openstreetmap.org/relation", "diagonal.works/ns/ll", "example.com/a", "example.com/a/b/c", "", "x"}
var c19u64 = []uint64{0, 1, 2, 63, 64, 1<<31 - 1, 1 << 31, 1<<32 - 1, 1 << 32, 1<<32 + 1, 1 << 62, 1<<63 - 1, 1 << 63, 1<<63 + 1, 1<<64 - 1}
var c19i64 = []int64{0, 1, -1, 42, 1<<31 - 1, 1 << 31, -(1 << 31), 1<<32 + 1, 1<<53 + 1, math.MaxInt64, math.MinInt64, math.MinInt64 + 1}
var c19f64 = []float64{0, math.Copysign(0, -1), 1, -1, 0.1, 0.25, 1.005, 1e-7, 1e21, math.MaxFloat64, -math.MaxFloat64, math.SmallestNonzeroFloat64, math.Inf(1), math.Inf(-1), math.NaN(), math.Pi, 51.5351, 1 << 53}

func (g *c19gen) str() string {
	if g.r.Chance(0.8) {
		return core.Pick(g.r, c19strings)
	}
	n := g.r.Range(1, 12)
	rs := make([]rune, n)
	for i := range rs {
		switch g.r.Intn(4) {
		case 0:
			rs[i] = rune(g.r.Range(1, 0x7f))
		case 1:
			rs[i] = rune(g.r.Range(0xa0, 0x7ff))
		case 2:
			rs[i] = rune(g.r.Range(0x4e00, 0x4eff))
		default:
			rs[i] = rune('a' + g.r.Intn(26))
		}
	}
	return string(rs)
}

func (g *c19gen) u64() uint64 {
	if g.r.Chance(0.6) {
		return core.Pick(g.r, c19u64)
	}
	return g.r.U64() >> uint(g.r.Intn(64))
}

func (g *c19gen) i64() int64 {
	if g.r.Chance(0.6) {
		return core.Pick(g.r, c19i64)
	}
	return g.r.I64() >> uint(g.r.Intn(64))
}

func (g *c19gen) f64() float64 {
	if g.r.Chance(0.6) {
		return core.Pick(g.r, c19f64)
	}
	if g.r.Bool() {
		return math.Float64frombits(g.r.U64())
	}
	return (g.r.Float() - 0.5) * math.Pow(10, float64(g.r.Range(-8, 12)))
}

func (g *c19gen) featureType(allowInvalid bool) pb.FeatureType {
	lo := 1
	if allowInvalid {
		lo = 0
	}
	return pb.FeatureType(g.r.Range(lo, 6))
}

func (g *c19gen) featureID() *pb.FeatureIDProto {
	return &pb.FeatureIDProto{Type: g.featureType(true), Namespace: core.Pick(g.r, c19namespaces), Value: g.u64()}
}

func (g *c19gen) point() *pb.PointProto {
	switch g.r.Intn(8) {
	case 0:
		return &pb.PointProto{LatE7: core.Pick(g.r, []int32{-900000000, 900000000, 0, 1, -1, 899999999}), LngE7: core.Pick(g.r, []int32{-1800000000, 1800000000, 0, 1, -1, 1799999999, -1799999999})}
	case 1:
		return &pb.PointProto{LatE7: int32(g.r.Range(-900000000, 900000000)), LngE7: int32(g.r.Range(-1800000000, 1800000000))}
	default:
		return &pb.PointProto{LatE7: int32(515000000 + g.r.Range(-5000000, 5000000)), LngE7: int32(-1000000 + g.r.Range(-5000000, 5000000))}
	}
}

func (g *c19gen) polyline(min int) *pb.PolylineProto {
	n := g.r.Range(min, min+5)
	p := &pb.PolylineProto{}
	var last *pb.PointProto
	for i := 0; i < n; i++ {
		pt := g.point()
		if last != nil && g.r.Chance(0.7) { // mostly short hops
			pt = &pb.PointProto{LatE7: c19clampLat(last.LatE7 + int32(g.r.Range(-20000, 20000))), LngE7: c19wrapLng(int64(last.LngE7) + int64(g.r.Range(-20000, 20000)))}
		}
		p.Points = append(p.Points, pt)
		last = pt
	}
	return p
}

func c19clampLat(v int32) int32 {
	if v > 890000000 {
		return 890000000
	}
	if v < -890000000 {
		return -890000000
	}
	return v
}

func c19wrapLng(v int64) int32 {
	for v > 1800000000 {
		v -= 3600000000
	}
	for v < -1800000000 {
		v += 3600000000
	}
	return int32(v)
}

// loop returns a simple star-shaped loop around (lat,lng) (E7), counter-clockwise,
// with radial distances in [rmin,rmax] (E7 units, lng scaled by 1/cos(lat)).
func (g *c19gen) loop(lat, lng int32, rmin, rmax float64, n int) *pb.LoopProto {
	angles := make([]float64, n)
	for i := range angles {
		// one vertex per sector, so that the loop is simple and not degenerate
		angles[i] = (float64(i) + 0.3 + 0.4*g.r.Float()) * 2 * math.Pi / float64(n)
	}
	sort.Float64s(angles)
	scale := 1 / math.Cos(float64(lat)*1e-7*math.Pi/180)
	l := &pb.LoopProto{}
	for _, a := range angles {
		d := rmin + (rmax-rmin)*g.r.Float()
		l.Points = append(l.Points, &pb.PointProto{
			LatE7: c19clampLat(lat + int32(math.Round(d*math.Sin(a)))),
			LngE7: c19wrapLng(int64(lng) + int64(math.Round(d*math.Cos(a)*scale))),
		})
	}
	return l
}

// multiPolygon: polygons are disjoint (centres far apart compared with their
// size); each is a counter-clockwise shell followed by its holes, which are
// counter-clockwise too (the documented convention of PolygonProto: "All loops
// are ordered counter-clockwise, ... inside if enclosed by an odd number of loops").
func (g *c19gen) multiPolygon(maxHoles int) *pb.MultiPolygonProto {
	m := &pb.MultiPolygonProto{}
	n := g.r.Range(1, 3)
	lat0 := int32(g.r.Range(-800000000, 800000000))
	lng0 := int32(g.r.Range(-1800000000, 1800000000))
	if g.r.Chance(0.5) {
		lat0, lng0 = 515000000+int32(g.r.Range(-1000000, 1000000)), int32(g.r.Range(-3000000, 3000000))
	}
	for i := 0; i < n; i++ {
		lat := c19clampLat(lat0 + int32(i)*30000000) // 3 degrees apart
		lng := lng0
		size := float64(g.r.Range(2000, 5000000)) // up to 0.5 degree
		poly := &pb.PolygonProto{}
		holes := 0
		if maxHoles > 0 {
			holes = g.r.Intn(maxHoles + 1)
		}
		if holes > 0 {
			// >= 6 vertices: every edge of the shell stays further than 0.5*size from the centre
			poly.Loops = append(poly.Loops, g.loop(lat, lng, size*0.7, size, g.r.Range(6, 9)))
		} else {
			poly.Loops = append(poly.Loops, g.loop(lat, lng, size*0.7, size, g.r.Range(3, 8)))
		}
		scale := 1 / math.Cos(float64(lat)*1e-7*math.Pi/180)
		for h := 0; h < holes; h++ {
			// holes sit on a ring of radius 0.35*size in distinct sectors and are small
			a := (float64(h) + 0.5) * 2 * math.Pi / float64(holes)
			hl := lat + int32(0.3*size*math.Sin(a))
			hg := c19wrapLng(int64(lng) + int64(0.3*size*math.Cos(a)*scale))
			poly.Loops = append(poly.Loops, g.loop(hl, hg, size*0.04, size*0.08, g.r.Range(3, 5)))
		}
		if holes > 0 {
			g.note("area_with_holes")
		}
		if holes > 1 {
			g.note("area_with_2plus_holes")
		}
		m.Polygons = append(m.Polygons, poly)
	}
	if n > 1 {
		g.note("area_multi")
	}
	return m
}

func (g *c19gen) cellIDs() []uint64 {
	n := g.r.Range(0, 4)
	ids := make([]uint64, n)
	for i := range ids {
		p := g.point()
		ll := s2.LatLngFromDegrees(float64(p.LatE7)*1e-7, float64(p.LngE7)*1e-7)
		ids[i] = uint64(s2.CellIDFromLatLng(ll).Parent(g.r.Range(0, 30)))
	}
	return ids
}

var c19queryKinds = []string{"all", "empty", "keyed", "tagged", "typed", "intersection", "union", "intersectsCap", "intersectsFeature", "intersectsPoint", "intersectsPolyline", "intersectsMultiPolygon", "intersectsCells", "isValid", "mightIntersect"}

func (g *c19gen) query(depth int) *pb.QueryProto {
	for {
		k := core.Pick(g.r, c19queryKinds)
		if depth <= 0 && (k == "typed" || k == "intersection" || k == "union") {
			continue
		}
		if k == "mightIntersect" && g.sub != "mightIntersect" {
			continue
		}
		if g.sub == "mightIntersect" && depth > 0 && g.r.Chance(0.5) {
			k = "mightIntersect"
		}
		g.note("query_" + k)
		switch k {
		case "all":
			return &pb.QueryProto{Query: &pb.QueryProto_All{All: &pb.AllQueryProto{}}}
		case "empty":
			return &pb.QueryProto{Query: &pb.QueryProto_Empty{Empty: &pb.EmptyQueryProto{}}}
		case "isValid":
			return &pb.QueryProto{Query: &pb.QueryProto_IsValid{IsValid: &pb.IsValidQueryProto{}}}
		case "keyed":
			return &pb.QueryProto{Query: &pb.QueryProto_Keyed{Keyed: g.str()}}
		case "tagged":
			return &pb.QueryProto{Query: &pb.QueryProto_Tagged{Tagged: &pb.TagProto{Key: g.str(), Value: g.str()}}}
		case "typed":
			return &pb.QueryProto{Query: &pb.QueryProto_Typed{Typed: &pb.TypedQueryProto{Type: g.featureType(true), Query: g.query(depth - 1)}}}
		case "intersection", "union":
			n := g.r.Range(0, 3)
			qs := &pb.QueriesProto{}
			for i := 0; i < n; i++ {
				qs.Queries = append(qs.Queries, g.query(depth-1))
			}
			if k == "union" {
				return &pb.QueryProto{Query: &pb.QueryProto_Union{Union: qs}}
			}
			return &pb.QueryProto{Query: &pb.QueryProto_Intersection{Intersection: qs}}
		case "intersectsCap":
			// radius up to a hemisphere; beyond pi*R the cap is the whole sphere
			radius := core.Pick(g.r, []float64{0, 0.5, 1, 12.5, 100, 500, 1000, 12345.678, 1e6, 1e7})
			if g.r.Bool() {
				radius = g.r.Float() * math.Pow(10, float64(g.r.Range(-2, 7)))
			}
			return &pb.QueryProto{Query: &pb.QueryProto_IntersectsCap{IntersectsCap: &pb.CapProto{Center: g.point(), RadiusMeters: radius}}}
		case "intersectsFeature":
			return &pb.QueryProto{Query: &pb.QueryProto_IntersectsFeature{IntersectsFeature: g.featureID()}}
		case "intersectsPoint":
			return &pb.QueryProto{Query: &pb.QueryProto_IntersectsPoint{IntersectsPoint: g.point()}}
		case "intersectsPolyline":
			return &pb.QueryProto{Query: &pb.QueryProto_IntersectsPolyline{IntersectsPolyline: g.polyline(2)}}
		case "intersectsMultiPolygon":
			return &pb.QueryProto{Query: &pb.QueryProto_IntersectsMultiPolygon{IntersectsMultiPolygon: g.multiPolygon(2)}}
		case "intersectsCells":
			return &pb.QueryProto{Query: &pb.QueryProto_IntersectsCells{IntersectsCells: &pb.S2CellIDsProto{S2CellIDs: g.cellIDs()}}}
		case "mightIntersect":
			return &pb.QueryProto{Query: &pb.QueryProto_MightIntersect{MightIntersect: &pb.S2CellIDsProto{S2CellIDs: g.cellIDs()}}}
		}
	}
}

// The literal kinds ExpressionFromProto has a handler for. featureValue has no
// handler ("Can't import features from protos"), geoJSONValue's handler is
// panic("Unimplemented"), pairValue and appliedChangeValue are results only:
// these four are not sendable and are not generated.
var c19literalKinds = []string{"nil", "bool", "string", "int", "float", "collection", "query", "featureID", "point", "path", "area", "tag", "route"}

func (g *c19gen) literal(depth int, inCollection bool) *pb.LiteralNodeProto {
	for {
		k := core.Pick(g.r, c19literalKinds)
		if k == "collection" && depth <= 0 {
			continue
		}
		prefix := "lit_"
		if inCollection {
			prefix = "elem_"
		}
		g.note(prefix + k)
		switch k {
		case "nil":
			// the Go side writes LiteralNodeProto_NilValue{} (false); a client may write either
			return &pb.LiteralNodeProto{Value: &pb.LiteralNodeProto_NilValue{NilValue: false}}
		case "bool":
			return &pb.LiteralNodeProto{Value: &pb.LiteralNodeProto_BoolValue{BoolValue: g.r.Bool()}}
		case "string":
			return &pb.LiteralNodeProto{Value: &pb.LiteralNodeProto_StringValue{StringValue: g.str()}}
		case "int":
			return &pb.LiteralNodeProto{Value: &pb.LiteralNodeProto_IntValue{IntValue: g.i64()}}
		case "float":
			return &pb.LiteralNodeProto{Value: &pb.LiteralNodeProto_FloatValue{FloatValue: g.f64()}}
		case "featureID":
			return &pb.LiteralNodeProto{Value: &pb.LiteralNodeProto_FeatureIDValue{FeatureIDValue: g.featureID()}}
		case "point":
			return &pb.LiteralNodeProto{Value: &pb.LiteralNodeProto_PointValue{PointValue: g.point()}}
		case "path":
			if g.sub == "degenerate-geometry" {
				pl := g.polyline(2)
				pl.Points = pl.Points[:g.r.Intn(2)] // 0 or 1 point
				return &pb.LiteralNodeProto{Value: &pb.LiteralNodeProto_PathValue{PathValue: pl}}
			}
			return &pb.LiteralNodeProto{Value: &pb.LiteralNodeProto_PathValue{PathValue: g.polyline(2)}}
		case "area":
			if g.sub == "degenerate-geometry" {
				return &pb.LiteralNodeProto{Value: &pb.LiteralNodeProto_AreaValue{AreaValue: &pb.MultiPolygonProto{}}}
			}
			return &pb.LiteralNodeProto{Value: &pb.LiteralNodeProto_AreaValue{AreaValue: g.multiPolygon(2)}}
		case "tag":
			return &pb.LiteralNodeProto{Value: &pb.LiteralNodeProto_TagValue{TagValue: &pb.TagProto{Key: g.str(), Value: g.str()}}}
		case "query":
			return &pb.LiteralNodeProto{Value: &pb.LiteralNodeProto_QueryValue{QueryValue: g.query(2)}}
		case "route":
			rt := &pb.RouteProto{Origin: g.featureID()}
			for i, n := 0, g.r.Range(0, 3); i < n; i++ {
				rt.Steps = append(rt.Steps, &pb.StepProto{Destination: g.featureID(), Via: g.featureID(), Cost: g.f64()})
			}
			return &pb.LiteralNodeProto{Value: &pb.LiteralNodeProto_RouteValue{RouteValue: rt}}
		case "collection":
			c := &pb.CollectionProto{}
			for i, n := 0, g.r.Range(0, 4); i < n; i++ {
				c.Keys = append(c.Keys, g.literal(depth-1, true))
				c.Values = append(c.Values, g.literal(depth-1, true))
			}
			if len(c.Keys) == 0 {
				g.note("collection_empty")
			}
			return &pb.LiteralNodeProto{Value: &pb.LiteralNodeProto_CollectionValue{CollectionValue: c}}
		}
	}
}

func (g *c19gen) decorate(n *pb.NodeProto) *pb.NodeProto {
	n.Name = core.Pick(g.r, c19names)
	if n.Name != "" {
		g.note("named_node")
	}
	switch g.r.Intn(6) {
	case 0, 1, 2: // a parsed node: 0 <= begin <= end
		n.Begin = int32(g.r.ExpInt(200))
		n.End = n.Begin + int32(g.r.ExpInt(100))
		if n.End > 0 {
			g.note("positioned_node")
		}
	case 3:
		n.Begin, n.End = core.Pick(g.r, []int32{0, 1, math.MaxInt32, math.MaxInt32 - 1}), math.MaxInt32
		g.note("positioned_node")
	}
	return n
}

func (g *c19gen) node(depth int) *pb.NodeProto {
	k := g.r.Intn(10)
	if depth <= 0 && k >= 6 {
		k = g.r.Intn(6)
	}
	switch {
	case k < 2:
		g.note("node_symbol")
		return g.decorate(&pb.NodeProto{Node: &pb.NodeProto_Symbol{Symbol: core.Pick(g.r, c19symbols)}})
	case k < 6:
		g.note("node_literal")
		return g.decorate(&pb.NodeProto{Node: &pb.NodeProto_Literal{Literal: g.literal(2, false)}})
	case k < 9:
		g.note("node_call")
		call := &pb.CallNodeProto{Pipelined: g.r.Chance(0.3)}
		if call.Pipelined {
			g.note("pipelined_call")
		}
		if g.r.Chance(0.7) {
			g.note("node_symbol")
			call.Function = g.decorate(&pb.NodeProto{Node: &pb.NodeProto_Symbol{Symbol: core.Pick(g.r, c19symbols)}})
		} else {
			call.Function = g.node(depth - 1)
		}
		for i, n := 0, g.r.Range(0, 3); i < n; i++ {
			call.Args = append(call.Args, g.node(depth-1))
		}
		return g.decorate(&pb.NodeProto{Node: &pb.NodeProto_Call{Call: call}})
	default:
		g.note("node_lambda")
		l := &pb.LambdaNodeProto{}
		for i, n := 0, g.r.Range(0, 3); i < n; i++ {
			l.Args = append(l.Args, core.Pick(g.r, c19symbols))
		}
		if len(l.Args) == 0 {
			g.note("lambda_no_args")
		}
		l.Node = g.node(depth - 1)
		return g.decorate(&pb.NodeProto{Node: &pb.NodeProto_Lambda_{Lambda_: l}})
	}
}
