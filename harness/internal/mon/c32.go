package mon

import (
	"encoding/json"
	"fmt"
	"math"
	"sort"
	"strconv"
	"strings"

	"diagonal.works/b6"
	"diagonal.works/b6/geojson"
	"diagonal.works/b6/ingest"
	"github.com/golang/geo/s2"
	"verif/internal/core"
)

// C32 GeoJSON geometry round-trips and imports faithfully.
//
// Oracle: the monitor's own geometry value (c32Geom: a type name plus nested
// lists of (lat,lng)). From it the monitor builds (a) the geojson package's
// in-memory value and (b) GeoJSON text with its own writer (member order,
// white space and number formats varied).
//
// Part A, for all six geometry types and any finite float64 coordinates:
//   - json.Marshal of the package value, parsed generically, is
//     {"type": T, "coordinates": nested [lng,lat]} with exactly the same numbers;
//   - json.Unmarshal of that output, and of the monitor's own text, into
//     geojson.Geometry gives exactly the same type and coordinates;
//   - the package's own entry point geojson.Unmarshal does the same for a bare
//     geometry, a Feature and a FeatureCollection (properties included).
//
// Part B, for collections of features with valid lat/lng:
//   - AddFeatures.FillFromGeoJSON yields exactly one feature per GeoJSON
//     feature (matched through the ID value = position in the collection) of
//     the corresponding kind (Point -> point, LineString -> path, Polygon and
//     MultiPolygon -> area), with the same positions (angular distance below
//     1e-10 rad; polygon rings as cyclic sequences in either direction, with or
//     without the closing vertex, holes flagged as holes) and the same
//     properties as tags;
//   - the same again on the features found in a mutable world after Apply.
//
// MultiPoint and MultiLineString features are labelled sub-cases: b6 has no
// feature kind for them and the importer drops them (recorded as known
// findings with their own signatures).

type c32LL struct{ lat, lng float64 }

type c32Geom struct {
	typ   string
	pt    c32LL       // Point
	line  []c32LL     // MultiPoint, LineString
	lines [][]c32LL   // MultiLineString, Polygon
	polys [][][]c32LL // MultiPolygon
}

func c32Coords(ps []c32LL) []geojson.Coordinate {
	if ps == nil {
		return nil
	}
	out := make([]geojson.Coordinate, len(ps))
	for i, p := range ps {
		out[i] = geojson.Coordinate{Lat: p.lat, Lng: p.lng}
	}
	return out
}

func c32Coords2(ls [][]c32LL) [][]geojson.Coordinate {
	if ls == nil {
		return nil
	}
	out := make([][]geojson.Coordinate, len(ls))
	for i, l := range ls {
		out[i] = c32Coords(l)
	}
	return out
}

func (g *c32Geom) toPackage() geojson.Geometry {
	switch g.typ {
	case "Point":
		return geojson.Geometry{Type: g.typ, Coordinates: geojson.Point{Lat: g.pt.lat, Lng: g.pt.lng}}
	case "MultiPoint":
		return geojson.Geometry{Type: g.typ, Coordinates: geojson.MultiPoint(c32Coords(g.line))}
	case "LineString":
		return geojson.Geometry{Type: g.typ, Coordinates: geojson.LineString(c32Coords(g.line))}
	case "MultiLineString":
		return geojson.Geometry{Type: g.typ, Coordinates: geojson.MultiLineString(c32Coords2(g.lines))}
	case "Polygon":
		return geojson.Geometry{Type: g.typ, Coordinates: geojson.Polygon(c32Coords2(g.lines))}
	default:
		var out geojson.MultiPolygon
		if g.polys != nil {
			out = make(geojson.MultiPolygon, len(g.polys))
			for i, p := range g.polys {
				out[i] = c32Coords2(p)
			}
		}
		return geojson.Geometry{Type: g.typ, Coordinates: out}
	}
}

func c32FromCoords(cs []geojson.Coordinate) []c32LL {
	out := make([]c32LL, len(cs))
	for i, c := range cs {
		out[i] = c32LL{c.Lat, c.Lng}
	}
	return out
}

func c32FromCoords2(cs [][]geojson.Coordinate) [][]c32LL {
	out := make([][]c32LL, len(cs))
	for i, c := range cs {
		out[i] = c32FromCoords(c)
	}
	return out
}

// c32FromPackage reads a package geometry back into the monitor's value. The
// kind is taken from the dynamic type of Coordinates; Type is returned
// separately so that a mismatch between the two shows.
func c32FromPackage(g geojson.Geometry) (c32Geom, string) {
	var out c32Geom
	switch c := g.Coordinates.(type) {
	case geojson.Point:
		out.typ, out.pt = "Point", c32LL{c.Lat, c.Lng}
	case geojson.MultiPoint:
		out.typ, out.line = "MultiPoint", c32FromCoords(c)
	case geojson.LineString:
		out.typ, out.line = "LineString", c32FromCoords(c)
	case geojson.MultiLineString:
		out.typ, out.lines = "MultiLineString", c32FromCoords2(c)
	case geojson.Polygon:
		out.typ, out.lines = "Polygon", c32FromCoords2(c)
	case geojson.MultiPolygon:
		out.typ = "MultiPolygon"
		out.polys = make([][][]c32LL, len(c))
		for i, p := range c {
			out.polys[i] = c32FromCoords2(p)
		}
	default:
		out.typ = fmt.Sprintf("%T", g.Coordinates)
	}
	return out, g.Type
}

func c32Num(r *core.R, v float64) string {
	if r == nil {
		return strconv.FormatFloat(v, 'g', -1, 64)
	}
	switch r.Intn(4) {
	case 0:
		return strconv.FormatFloat(v, 'e', -1, 64)
	case 1:
		s := strconv.FormatFloat(v, 'E', -1, 64)
		return s
	case 2:
		if math.Abs(v) < 1e15 && math.Abs(v) > 1e-5 || v == 0 {
			return strconv.FormatFloat(v, 'f', -1, 64)
		}
	}
	return strconv.FormatFloat(v, 'g', -1, 64)
}

// text renders the geometry as GeoJSON. With r != nil white space, number
// formats and member order vary; with r == nil the rendering is canonical.
func (g *c32Geom) text(r *core.R) string {
	sp := func() string {
		if r != nil && r.Chance(0.3) {
			return core.Pick(r, []string{" ", "\n", "\t", "  "})
		}
		return ""
	}
	pos := func(p c32LL) string {
		return "[" + sp() + c32Num(r, p.lng) + sp() + "," + sp() + c32Num(r, p.lat) + sp() + "]"
	}
	list := func(ps []c32LL) string {
		parts := make([]string, len(ps))
		for i, p := range ps {
			parts[i] = pos(p)
		}
		return "[" + sp() + strings.Join(parts, ","+sp()) + "]"
	}
	list2 := func(ls [][]c32LL) string {
		parts := make([]string, len(ls))
		for i, l := range ls {
			parts[i] = list(l)
		}
		return "[" + strings.Join(parts, ","+sp()) + sp() + "]"
	}
	var coords string
	switch g.typ {
	case "Point":
		coords = pos(g.pt)
	case "MultiPoint", "LineString":
		coords = list(g.line)
	case "MultiLineString", "Polygon":
		coords = list2(g.lines)
	default:
		parts := make([]string, len(g.polys))
		for i, p := range g.polys {
			parts[i] = list2(p)
		}
		coords = "[" + strings.Join(parts, ",") + "]"
	}
	members := []string{`"type":` + sp() + strconv.Quote(g.typ), `"coordinates":` + sp() + coords}
	if r != nil {
		if r.Bool() {
			members[0], members[1] = members[1], members[0]
		}
		if r.Chance(0.2) {
			members = append(members, `"bbox":[0,0,1,1]`)
		}
	}
	return "{" + sp() + strings.Join(members, sp()+","+sp()) + sp() + "}"
}

func c32SameLL(a, b []c32LL) bool {
	if len(a) != len(b) {
		return false
	}
	for i := range a {
		if a[i] != b[i] {
			return false
		}
	}
	return true
}

func c32SameLL2(a, b [][]c32LL) bool {
	if len(a) != len(b) {
		return false
	}
	for i := range a {
		if !c32SameLL(a[i], b[i]) {
			return false
		}
	}
	return true
}

// same: exactly the same type and numbers.
func (g *c32Geom) same(o *c32Geom) bool {
	if g.typ != o.typ {
		return false
	}
	switch g.typ {
	case "Point":
		return g.pt == o.pt
	case "MultiPoint", "LineString":
		return c32SameLL(g.line, o.line)
	case "MultiLineString", "Polygon":
		return c32SameLL2(g.lines, o.lines)
	}
	if len(g.polys) != len(o.polys) {
		return false
	}
	for i := range g.polys {
		if !c32SameLL2(g.polys[i], o.polys[i]) {
			return false
		}
	}
	return true
}

// generic turns the geometry into what encoding/json's generic parse of
// correct GeoJSON would give for "coordinates".
func (g *c32Geom) generic() any {
	pos := func(p c32LL) any { return []any{p.lng, p.lat} }
	list := func(ps []c32LL) any {
		if ps == nil {
			return nil
		}
		out := make([]any, len(ps))
		for i, p := range ps {
			out[i] = pos(p)
		}
		return out
	}
	list2 := func(ls [][]c32LL) any {
		if ls == nil {
			return nil
		}
		out := make([]any, len(ls))
		for i, l := range ls {
			out[i] = list(l)
		}
		return out
	}
	switch g.typ {
	case "Point":
		return pos(g.pt)
	case "MultiPoint", "LineString":
		return list(g.line)
	case "MultiLineString", "Polygon":
		return list2(g.lines)
	}
	if g.polys == nil {
		return nil
	}
	out := make([]any, len(g.polys))
	for i, p := range g.polys {
		out[i] = list2(p)
	}
	return out
}

func c32GenericEqual(a, b any) bool {
	switch x := a.(type) {
	case nil:
		// a nil slice marshals as null, an empty one as []
		if y, ok := b.([]any); ok {
			return len(y) == 0
		}
		return b == nil
	case float64:
		y, ok := b.(float64)
		return ok && x == y
	case []any:
		y, ok := b.([]any)
		if !ok {
			return b == nil && len(x) == 0
		}
		if len(x) != len(y) {
			return false
		}
		for i := range x {
			if !c32GenericEqual(x[i], y[i]) {
				return false
			}
		}
		return true
	}
	return false
}

// ---- generators

func c32AnyFloat(r *core.R) float64 {
	switch r.Intn(10) {
	case 0:
		return float64(r.Range(-180, 180))
	case 1:
		return float64(r.Range(-1800000000, 1800000000)) / 1e7
	case 2:
		return core.Pick(r, []float64{0, math.Copysign(0, -1), 1e-7, -1e-7, 5e-324, -5e-324, math.MaxFloat64, -math.MaxFloat64, 1e21, 1e-7 * 3, 0.1, 0.30000000000000004, 1e20, 123456789012345680})
	case 3:
		return math.Float64frombits(r.U64()&^(0x7ff<<52) | uint64(r.Range(1, 2046))<<52) // any finite normal
	case 4:
		return (r.Float() - 0.5) * 1e-300
	default:
		return (r.Float()*2 - 1) * 180
	}
}

// c32ZeroLLs: positions that coincide with the zero value of a decoded
// position (null island and its relatives).
var c32ZeroLLs = []c32LL{{0, 0}, {0, 0}, {math.Copysign(0, -1), 0}, {0, 90}, {51.5, 0}, {0, -180}}

func c32AnyLL(r *core.R) c32LL {
	if r.Chance(0.04) {
		return core.Pick(r, c32ZeroLLs)
	}
	return c32LL{c32AnyFloat(r), c32AnyFloat(r)}
}

func c32AnyLine(r *core.R, lo, hi int) []c32LL {
	n := r.Range(lo, hi)
	if n == 0 && r.Bool() {
		return nil
	}
	out := make([]c32LL, n)
	for i := range out {
		out[i] = c32AnyLL(r)
	}
	return out
}

var c32Types = []string{"Point", "MultiPoint", "LineString", "MultiLineString", "Polygon", "MultiPolygon"}

// c32AnyGeom: any finite numbers, any shape (also empty lists); only for the
// marshalling part.
func c32AnyGeom(r *core.R, typ string) c32Geom {
	g := c32Geom{typ: typ}
	lines := func() [][]c32LL {
		n := r.Range(0, 3)
		if n == 0 && r.Bool() {
			return nil
		}
		out := make([][]c32LL, n)
		for i := range out {
			out[i] = c32AnyLine(r, 0, 5)
		}
		return out
	}
	switch typ {
	case "Point":
		g.pt = c32AnyLL(r)
	case "MultiPoint", "LineString":
		g.line = c32AnyLine(r, 0, 6)
	case "MultiLineString", "Polygon":
		g.lines = lines()
	default:
		n := r.Range(0, 3)
		if n > 0 || r.Bool() {
			g.polys = make([][][]c32LL, n)
			for i := range g.polys {
				g.polys[i] = lines()
			}
		}
	}
	return g
}

func c32Degrees(r *core.R, limit float64) float64 {
	switch r.Intn(8) {
	case 0:
		return float64(r.Range(-int(limit), int(limit)))
	case 1:
		return float64(r.Range(-int(limit*1e7), int(limit*1e7))) / 1e7
	case 2:
		return core.Pick(r, []float64{limit, -limit, 0, limit - 1e-9, -limit + 1e-9})
	default:
		return (r.Float()*2 - 1) * limit
	}
}

// c32Ring: a closed star-shaped ring around (clat,clng), radius rad degrees,
// counter-clockwise when ccw.
func c32Ring(r *core.R, clat, clng, rad float64, n int, ccw bool) []c32LL {
	out := make([]c32LL, 0, n+1)
	start := r.Float() * 2 * math.Pi
	for k := 0; k < n; k++ {
		a := start + (float64(k)+0.5*(r.Float()-0.5))*2*math.Pi/float64(n)
		rr := rad * (0.7 + 0.3*r.Float())
		out = append(out, c32LL{clat + rr*math.Sin(a), clng + rr*math.Cos(a)/math.Cos(clat*math.Pi/180)})
	}
	if !ccw {
		for i, j := 0, len(out)-1; i < j; i, j = i+1, j-1 {
			out[i], out[j] = out[j], out[i]
		}
	}
	return append(out, out[0])
}

// c32Polygon: one shell with 0..3 holes. orient: 0 = RFC 7946 (shell ccw, holes
// cw), 1 = everything ccw, 2 = everything cw, 3 = shell cw, holes ccw.
func c32Polygon(r *core.R, clat, clng, rad float64, orient int) [][]c32LL {
	nholes := 0
	if r.Chance(0.5) {
		nholes = r.Range(1, 3)
	}
	nv := r.Range(3, 12)
	if nholes > 0 {
		nv = r.Range(8, 16)
	}
	shellCCW := orient == 0 || orient == 1
	holeCCW := orient == 1 || orient == 3
	rings := [][]c32LL{c32Ring(r, clat, clng, rad, nv, shellCCW)}
	h0 := r.Float() * 2 * math.Pi
	for h := 0; h < nholes; h++ {
		a := h0 + float64(h)*2*math.Pi/3
		hlat := clat + 0.28*rad*math.Sin(a)
		hlng := clng + 0.28*rad*math.Cos(a)/math.Cos(clat*math.Pi/180)
		rings = append(rings, c32Ring(r, hlat, hlng, 0.17*rad*(0.6+0.4*r.Float()), r.Range(3, 8), holeCCW))
	}
	return rings
}

// c32ValidGeom: geometry with valid latitudes/longitudes that a world accepts.
func c32ValidGeom(r *core.R, typ string) (c32Geom, int) {
	g := c32Geom{typ: typ}
	orient := 0
	line := func() []c32LL {
		n := r.Range(2, 8)
		out := make([]c32LL, 0, n)
		lat, lng := c32Degrees(r, 89), c32Degrees(r, 179)
		for i := 0; i < n; i++ {
			if r.Chance(0.2) {
				lat, lng = c32Degrees(r, 90), c32Degrees(r, 180)
			} else {
				lat = math.Max(-90, math.Min(90, lat+(r.Float()-0.5)*0.01))
				lng = math.Max(-180, math.Min(180, lng+(r.Float()-0.5)*0.01))
			}
			p := c32LL{lat, lng}
			if i > 0 && out[i-1] == p {
				p.lat = math.Max(-90, math.Min(90, p.lat+1e-5))
				if out[i-1] == p {
					p.lat -= 2e-5
				}
			}
			out = append(out, p)
		}
		return out
	}
	switch typ {
	case "Point":
		g.pt = c32LL{c32Degrees(r, 90), c32Degrees(r, 180)}
		if r.Chance(0.04) {
			g.pt = core.Pick(r, c32ZeroLLs)
		}
	case "MultiPoint":
		g.line = line()
	case "LineString":
		g.line = line()
		if r.Chance(0.15) && len(g.line) > 3 {
			g.line[len(g.line)-1] = g.line[0] // a closed line string is still a line
		}
	case "MultiLineString":
		for i, n := 0, r.Range(1, 3); i < n; i++ {
			g.lines = append(g.lines, line())
		}
	case "Polygon":
		orient = r.Intn(4)
		g.lines = c32Polygon(r, (r.Float()*2-1)*70, (r.Float()*2-1)*170, 0.001+r.Float()*r.Float()*2, orient)
	default:
		orient = r.Intn(4)
		clat, clng := (r.Float()*2-1)*70, (r.Float()*2-1)*160
		rad := 0.001 + r.Float()*r.Float()*1.5
		n := r.Range(1, 3)
		for i := 0; i < n; i++ {
			// members side by side, 3 radii apart in longitude
			g.polys = append(g.polys, c32Polygon(r, clat, clng+float64(i)*3*rad/math.Cos(clat*math.Pi/180), rad, orient))
		}
	}
	return g, orient
}

var c32Keys = []string{"name", "", "#amenity", "highway", "ß∂", "key with space", "a", "b:c", "@id", "日本語", "id", "type"}
var c32Vals = []string{"", "yes", "51.5,-0.1", "3", "true", "ß∂ü", "a=b", strings.Repeat("v", 300), "/point/openstreetmap.org/node/1", "null", "\"quoted\"", "line\nbreak"}

func c32Props(r *core.R, reserved string) map[string]string {
	m := map[string]string{}
	n := 0
	switch r.Intn(5) {
	case 0:
	case 1, 2, 3:
		n = r.Range(1, 3)
	default:
		n = r.Range(1, len(c32Keys))
	}
	for _, i := range r.Perm(len(c32Keys))[:n] {
		m[c32Keys[i]] = c32Vals[r.Intn(len(c32Vals))]
	}
	if reserved != "" {
		m[reserved] = core.Pick(r, []string{"x", "", "1,2"})
	}
	return m
}

func c32RenderProps(m map[string]string) string {
	ks := make([]string, 0, len(m))
	for k := range m {
		ks = append(ks, k)
	}
	sort.Strings(ks)
	var sb strings.Builder
	for _, k := range ks {
		fmt.Fprintf(&sb, "%q=%q ", k, m[k])
	}
	return sb.String()
}

func c32PropsText(r *core.R, m map[string]string) string {
	ks := make([]string, 0, len(m))
	for k := range m {
		ks = append(ks, k)
	}
	sort.Strings(ks)
	core.Shuffle(r, ks)
	parts := make([]string, len(ks))
	for i, k := range ks {
		kb, _ := json.Marshal(k)
		vb, _ := json.Marshal(m[k])
		parts[i] = string(kb) + ":" + string(vb)
	}
	return "{" + strings.Join(parts, ",") + "}"
}

// ---- comparison of imported geometry

const c32AngleTol = 1e-10 // radians, about 0.6 mm

func c32S2(p c32LL) s2.Point { return s2.PointFromLatLng(s2.LatLngFromDegrees(p.lat, p.lng)) }

func c32Near(p s2.Point, q c32LL) bool {
	return float64(p.Distance(c32S2(q))) <= c32AngleTol
}

func c32RenderS2(ps []s2.Point) string {
	var sb strings.Builder
	for i, p := range ps {
		if i >= 20 {
			fmt.Fprintf(&sb, " …(%d)", len(ps))
			break
		}
		ll := s2.LatLngFromPoint(p)
		fmt.Fprintf(&sb, "[%s,%s] ", strconv.FormatFloat(ll.Lng.Degrees(), 'g', 12, 64), strconv.FormatFloat(ll.Lat.Degrees(), 'g', 12, 64))
	}
	return sb.String()
}

func c32RenderLL(ps []c32LL) string {
	var sb strings.Builder
	for i, p := range ps {
		if i >= 20 {
			fmt.Fprintf(&sb, " …(%d)", len(ps))
			break
		}
		fmt.Fprintf(&sb, "[%s,%s] ", strconv.FormatFloat(p.lng, 'g', 12, 64), strconv.FormatFloat(p.lat, 'g', 12, 64))
	}
	return sb.String()
}

// c32RingMatches: the loop's vertices equal the ring (closing vertex dropped)
// as a cyclic sequence in either direction. keptClosing reports that the loop
// still carried the ring's duplicate closing vertex.
func c32RingMatches(ring []c32LL, loop []s2.Point) (ok, keptClosing bool) {
	open := ring
	if len(open) > 1 && open[0] == open[len(open)-1] {
		open = open[:len(open)-1]
	}
	try := func(vs []s2.Point) bool {
		n := len(open)
		if len(vs) != n {
			return false
		}
		for s := 0; s < n; s++ {
			if !c32Near(vs[s], open[0]) {
				continue
			}
			f, b := true, true
			for i := 0; i < n && (f || b); i++ {
				if !c32Near(vs[(s+i)%n], open[i]) {
					f = false
				}
				if !c32Near(vs[((s-i)%n+n)%n], open[i]) {
					b = false
				}
			}
			if f || b {
				return true
			}
		}
		return false
	}
	if try(loop) {
		return true, false
	}
	// a loop that kept the closing vertex has two equal consecutive vertices
	// somewhere (cyclically); drop one of them and try again
	n := len(loop)
	for i := 0; i < n; i++ {
		if loop[i] == loop[(i+1)%n] {
			vs := append(append([]s2.Point{}, loop[:i]...), loop[i+1:]...)
			if try(vs) {
				return true, true
			}
		}
	}
	return false, false
}

// c32PolygonMatches compares one GeoJSON polygon (rings[0] shell, others holes)
// with an S2 polygon. Returns "" or the name of what differs.
func c32PolygonMatches(rings [][]c32LL, poly *s2.Polygon, kept *bool) string {
	if poly == nil {
		return "polygon-missing"
	}
	if poly.NumLoops() != len(rings) {
		return "ring-count"
	}
	used := make([]bool, len(rings))
	for _, l := range poly.Loops() {
		vs := make([]s2.Point, l.NumVertices())
		for i := range vs {
			vs[i] = l.Vertex(i)
		}
		found := -1
		for ri, ring := range rings {
			if used[ri] {
				continue
			}
			if ok, k := c32RingMatches(ring, vs); ok {
				found = ri
				if k {
					*kept = true
				}
				break
			}
		}
		if found < 0 {
			return "ring-coordinates"
		}
		used[found] = true
		if l.IsHole() != (found > 0) {
			if found > 0 {
				return "hole-not-a-hole"
			}
			return "shell-is-a-hole"
		}
	}
	return ""
}

type c32Feature struct {
	geom     c32Geom
	props    map[string]string
	reserved string // "", "point" or "path": the feature has a property of that name (labelled sub-case)
	orient   int
}

func (f *c32Feature) sub() string {
	if f.reserved != "" {
		return "reserved-key=" + f.reserved + ":"
	}
	return ""
}

// c32CheckImported compares one imported feature (from AddFeatures or from a
// world) with the GeoJSON feature. stage names where it was observed.
func c32CheckImported(c *core.Ctx, stage string, i int, want *c32Feature, got b6.Feature, wit func(map[string]any) map[string]any) {
	wantType := map[string]b6.FeatureType{"Point": b6.FeatureTypePoint, "LineString": b6.FeatureTypePath, "Polygon": b6.FeatureTypeArea, "MultiPolygon": b6.FeatureTypeArea}[want.geom.typ]
	pre := stage + ":" + want.sub() + strings.ToLower(want.geom.typ)
	if got.FeatureID().Type != wantType {
		c.Violate(pre+":feature-kind", wit(nil), "%s: GeoJSON feature %d (%s) became a %s", stage, i, want.geom.typ, got.FeatureID().Type)
		return
	}
	geometryTags := 0
	switch want.geom.typ {
	case "Point":
		pf, ok := got.(b6.PhysicalFeature)
		if !ok {
			c.Violate(pre+":not-a-physical-feature", wit(nil), "%s: feature %d is a %T", stage, i, got)
			return
		}
		geometryTags = 1
		p := pf.Point()
		if !c32Near(p, want.geom.pt) {
			c.Violate(pre+":coordinates", wit(map[string]any{"got": c32RenderS2([]s2.Point{p})}), "%s: point %d is at %s, expected %s", stage, i, c32RenderS2([]s2.Point{p}), c32RenderLL([]c32LL{want.geom.pt}))
		}
		c.Max("max_point_error_e18_rad", int64(float64(p.Distance(c32S2(want.geom.pt)))*1e18))
	case "LineString":
		pf, ok := got.(b6.PhysicalFeature)
		if !ok {
			c.Violate(pre+":not-a-physical-feature", wit(nil), "%s: feature %d is a %T", stage, i, got)
			return
		}
		geometryTags = 1
		n := pf.GeometryLen()
		if n != len(want.geom.line) {
			c.Violate(pre+":point-count", wit(map[string]any{"got_points": n}), "%s: path %d has %d points, the line string %d", stage, i, n, len(want.geom.line))
			break
		}
		vs := make([]s2.Point, n)
		bad := false
		for k := 0; k < n; k++ {
			vs[k] = pf.PointAt(k)
			if !c32Near(vs[k], want.geom.line[k]) {
				bad = true
			}
		}
		if bad {
			c.Violate(pre+":coordinates", wit(map[string]any{"got": c32RenderS2(vs)}), "%s: path %d is %s, expected %s", stage, i, c32RenderS2(vs), c32RenderLL(want.geom.line))
		}
	case "Polygon", "MultiPolygon":
		polys := want.geom.polys
		if want.geom.typ == "Polygon" {
			polys = [][][]c32LL{want.geom.lines}
		}
		var n int
		var polygon func(int) *s2.Polygon
		switch a := got.(type) {
		case *ingest.AreaFeature:
			n = a.Len()
			polygon = func(k int) *s2.Polygon { p, _ := a.Polygon(k); return p }
		case b6.AreaFeature:
			n = a.Len()
			polygon = a.Polygon
		default:
			c.Violate(pre+":not-an-area-feature", wit(nil), "%s: feature %d is a %T", stage, i, got)
			return
		}
		if n != len(polys) {
			c.Violate(pre+":polygon-count", wit(map[string]any{"got_polygons": n}), "%s: area %d has %d polygons, the geometry %d", stage, i, n, len(polys))
			break
		}
		for k := range polys {
			kept := false
			if d := c32PolygonMatches(polys[k], polygon(k), &kept); d != "" {
				extra := map[string]any{"polygon": k, "orientation": want.orient}
				if p := polygon(k); p != nil {
					for li, l := range p.Loops() {
						if li < 5 {
							vs := make([]s2.Point, l.NumVertices())
							for q := range vs {
								vs[q] = l.Vertex(q)
							}
							extra[fmt.Sprintf("got_loop_%d_hole_%v", li, l.IsHole())] = c32RenderS2(vs)
						}
					}
				}
				c.Violate(pre+":"+d, wit(extra), "%s: polygon %d of area %d differs from the GeoJSON rings (%s)", stage, k, i, d)
			}
			if kept {
				c.Count("loop_kept_ring_closing_vertex")
			}
			if len(polys[k]) > 1 {
				c.Count("polygon_with_hole_imported")
			}
		}
	}
	// properties: every tag that is not the geometry
	tags := got.AllTags()
	gotProps := map[string][]string{}
	skipped := 0
	for _, t := range tags {
		if skipped < geometryTags && ((want.geom.typ == "Point" && t.Key == b6.PointTag) || (want.geom.typ == "LineString" && t.Key == b6.PathTag)) {
			skipped++
			continue
		}
		gotProps[t.Key] = append(gotProps[t.Key], t.Value.String())
	}
	// A point or path holds its geometry in the tag "point" / "path": a GeoJSON
	// property of either name on such a feature is don't-care (it may be kept as
	// a further tag or dropped), but it must never stand in for the geometry,
	// which the checks above decide.
	wantProps := want.props
	if geometryTags > 0 {
		wantProps = map[string]string{}
		for k, v := range want.props {
			if k != b6.PointTag && k != b6.PathTag {
				wantProps[k] = v
			}
		}
		delete(gotProps, b6.PointTag)
		delete(gotProps, b6.PathTag)
	}
	okProps := len(gotProps) == len(wantProps)
	for k, v := range wantProps {
		if vs := gotProps[k]; len(vs) != 1 || vs[0] != v {
			okProps = false
		}
	}
	if !okProps {
		var sb strings.Builder
		for _, t := range tags {
			fmt.Fprintf(&sb, "%q=%q ", t.Key, t.Value.String())
		}
		c.Violate(pre+":properties", wit(map[string]any{"got_tags": sb.String(), "properties": c32RenderProps(want.props)}),
			"%s: feature %d has tags %s, the GeoJSON properties are %s", stage, i, sb.String(), c32RenderProps(want.props))
	}
	c.Count("imported_feature_checked_" + stage)
}

func init() {
	core.Register(&core.Monitor{
		ID:        "C32",
		Title:     "GeoJSON geometry round-trips and imports faithfully",
		Technique: "round trip through encoding/json and geojson.Unmarshal against the monitor's own geometry value and its own GeoJSON text; import via AddFeatures.FillFromGeoJSON compared feature by feature, before and after Apply to a mutable world",
		Rule: "case = (2 geometries with arbitrary finite float64 coordinates and arbitrary shape incl. empty lists, for marshalling only) + (a collection of 0..6 features with valid lat/lng: " +
			"points and lines anywhere incl. poles and the antimeridian, polygons with 0..3 holes in four ring-orientation conventions, multipolygons of 1..3 members; property maps of 0..12 " +
			"string entries incl. empty key/value, unicode, long values, values that look like numbers/points/IDs; ~4% of features carry a property named 'point' or 'path' = labelled sub-case 'reserved-key'); " +
			"MultiPoint / MultiLineString features are labelled known-defect sub-cases; distinct = distinct canonical GeoJSON text of everything; non-trivial = at least two features of different geometry types, one with a property",
		Assumptions: []string{
			"positions are [lng,lat] pairs (the package has no altitude); property values are strings (the package's Properties type)",
			"imported positions may differ by float noise: angular distance <= 1e-10 rad (0.6 mm); marshal/unmarshal must be exact",
			"a ring is the same ring in either direction, from any start vertex, with or without its closing vertex (S2 loops are implicitly closed and normalised); holes must be holes and shells shells",
			"golang/geo s2 and encoding/json are trusted",
		},
		Quick: 6000, Thorough: 400000,
		Required: []string{"marshal_checked_Point", "marshal_checked_MultiPoint", "marshal_checked_LineString", "marshal_checked_MultiLineString", "marshal_checked_Polygon", "marshal_checked_MultiPolygon",
			"own_text_unmarshalled", "package_unmarshal_checked", "imported_feature_checked_filled", "imported_feature_checked_world", "polygon_with_hole_imported",
			"import_from_text", "import_from_memory", "reserved_key_feature", "empty_collection", "multipolygon_imported", "clockwise_shell_imported"},
		Run: func(c *core.Ctx) {
			r := c.R

			// ---------- Part A: marshalling
			var partA []c32Geom
			for i := 0; i < 2; i++ {
				partA = append(partA, c32AnyGeom(r, c32Types[r.Intn(len(c32Types))]))
			}
			// ---------- collection for part B
			nf := r.Range(0, 6)
			if r.Chance(0.05) {
				nf = 0
			}
			feats := make([]c32Feature, nf)
			typesSeen := map[string]bool{}
			anyProp := false
			for i := range feats {
				typ := ""
				switch k := r.Intn(20); {
				case k < 4:
					typ = "Point"
				case k < 9:
					typ = "LineString"
				case k < 14:
					typ = "Polygon"
				case k < 18:
					typ = "MultiPolygon"
				case k < 19:
					typ = "MultiPoint"
				default:
					typ = "MultiLineString"
				}
				g, orient := c32ValidGeom(r, typ)
				reserved := ""
				if r.Chance(0.04) {
					reserved = core.Pick(r, []string{"point", "path"})
				}
				feats[i] = c32Feature{geom: g, props: c32Props(r, reserved), reserved: reserved, orient: orient}
				typesSeen[typ] = true
				if len(feats[i].props) > 0 {
					anyProp = true
				}
				partA = append(partA, g)
			}
			var key strings.Builder
			for i := range partA {
				key.WriteString(partA[i].text(nil))
				key.WriteByte(';')
			}
			for i := range feats {
				key.WriteString(c32RenderProps(feats[i].props))
				key.WriteByte(';')
			}
			c.Key("%s", key.String())
			if len(typesSeen) >= 2 && anyProp {
				c.Nontrivial()
			}
			if c.Index < 3 {
				s := key.String()
				if len(s) > 1200 {
					s = s[:1200] + "…"
				}
				c.Sample(s)
			}

			for gi := range partA {
				g := &partA[gi]
				wit := func(extra map[string]any) map[string]any {
					t := g.text(nil)
					if len(t) > 1500 {
						t = t[:1500] + "…"
					}
					w := map[string]any{"geometry": t}
					for k, v := range extra {
						w[k] = v
					}
					return w
				}
				lt := strings.ToLower(g.typ)
				pg := g.toPackage()
				out, err := json.Marshal(pg)
				if err != nil {
					c.Violate("marshal:"+lt+":error", wit(nil), "json.Marshal failed: %v", err)
					continue
				}
				// 1. the marshalled text, parsed generically
				var gen map[string]any
				if err := json.Unmarshal(out, &gen); err != nil {
					c.Violate("marshal:"+lt+":not-json", wit(map[string]any{"output": string(out)}), "marshalled geometry is not a JSON object: %v", err)
					continue
				}
				if gen["type"] != g.typ {
					c.Violate("marshal:"+lt+":type-member", wit(map[string]any{"output": string(out)}), "marshalled type is %v", gen["type"])
				}
				if !c32GenericEqual(g.generic(), gen["coordinates"]) {
					c.Violate("marshal:"+lt+":coordinates", wit(map[string]any{"output": c32Clip(string(out), 1500)}), "marshalled coordinates differ from the geometry's [lng,lat] lists")
				}
				c.Count("marshal_checked_" + g.typ)
				// 2. back through encoding/json
				check := func(route string, got geojson.Geometry) {
					m, typ := c32FromPackage(got)
					if typ != g.typ {
						c.Violate(route+":"+lt+":type", wit(map[string]any{"got_type": typ}), "%s: Type is %q, expected %q", route, typ, g.typ)
					}
					if !g.same(&m) {
						c.Violate(route+":"+lt+":coordinates", wit(map[string]any{"got": c32Clip(m.text(nil), 1500)}), "%s: coordinates differ: got %s", route, c32Clip(m.text(nil), 300))
					}
				}
				var back geojson.Geometry
				if err := json.Unmarshal(out, &back); err != nil {
					c.Violate("json.Unmarshal:"+lt+":error", wit(map[string]any{"input": c32Clip(string(out), 1500)}), "json.Unmarshal of the package's own output failed: %v", err)
				} else {
					check("json.Unmarshal", back)
				}
				// 3. the monitor's own text
				own := g.text(r)
				var fromOwn geojson.Geometry
				if err := json.Unmarshal([]byte(own), &fromOwn); err != nil {
					c.Violate("json.Unmarshal-own-text:"+lt+":error", wit(map[string]any{"input": c32Clip(own, 1500)}), "json.Unmarshal of valid GeoJSON text failed: %v", err)
				} else {
					check("json.Unmarshal-own-text", fromOwn)
					c.Count("own_text_unmarshalled")
				}
				// 4. the package's entry point, bare geometry and wrapped in a feature
				if pu, err := geojson.Unmarshal(out); err != nil {
					c.Violate("geojson.Unmarshal:"+lt+":error", wit(map[string]any{"input": c32Clip(string(out), 1500)}), "geojson.Unmarshal of a %s geometry failed: %v", g.typ, err)
				} else if pgm, ok := pu.(*geojson.Geometry); !ok {
					c.Violate("geojson.Unmarshal:"+lt+":wrong-object", wit(nil), "geojson.Unmarshal of a geometry returned a %T", pu)
				} else {
					check("geojson.Unmarshal", *pgm)
					c.Count("package_unmarshal_checked")
				}
				props := c32Props(r, "")
				ftext := `{"type":"Feature","properties":` + c32PropsText(r, props) + `,"geometry":` + own + `}`
				if r.Bool() {
					ftext = `{"geometry":` + own + `,"type":"Feature","properties":` + c32PropsText(r, props) + `}`
				}
				if pu, err := geojson.Unmarshal([]byte(ftext)); err != nil {
					c.Violate("geojson.Unmarshal-feature:"+lt+":error", wit(map[string]any{"input": c32Clip(ftext, 1500)}), "geojson.Unmarshal of a Feature with a %s geometry failed: %v", g.typ, err)
				} else if pf, ok := pu.(*geojson.Feature); !ok {
					c.Violate("geojson.Unmarshal-feature:"+lt+":wrong-object", wit(nil), "geojson.Unmarshal of a Feature returned a %T", pu)
				} else {
					check("geojson.Unmarshal-feature", pf.Geometry)
					if c32RenderProps(pf.Properties) != c32RenderProps(props) {
						c.Violate("geojson.Unmarshal-feature:properties", wit(map[string]any{"got": c32RenderProps(pf.Properties), "want": c32RenderProps(props)}), "feature properties differ")
					}
					// and the feature marshals back to the same thing
					if fb, err := json.Marshal(pf); err != nil {
						c.Violate("marshal-feature:"+lt+":error", wit(nil), "json.Marshal of a Feature failed: %v", err)
					} else {
						var f2 geojson.Feature
						if err := json.Unmarshal(fb, &f2); err != nil {
							c.Violate("json.Unmarshal-feature:"+lt+":error", wit(map[string]any{"input": c32Clip(string(fb), 1500)}), "json.Unmarshal of a marshalled Feature failed: %v", err)
						} else {
							check("feature-round-trip", f2.Geometry)
							if c32RenderProps(f2.Properties) != c32RenderProps(props) {
								c.Violate("feature-round-trip:properties", wit(nil), "feature properties differ after a round trip")
							}
						}
					}
				}
			}

			// ---------- Part B: import
			ns := b6.Namespace(core.Pick(r, []string{"diagonal.works/ns/verif", "example.com/x", "a"}))
			fromText := r.Bool()
			var collection geojson.GeoJSON
			witB := func(i int) func(map[string]any) map[string]any {
				return func(extra map[string]any) map[string]any {
					w := map[string]any{"features_in_collection": len(feats), "from_text": fromText}
					if i >= 0 {
						w["feature_index"] = i
						w["geometry"] = c32Clip(feats[i].geom.text(nil), 1500)
						w["properties"] = c32RenderProps(feats[i].props)
					}
					for k, v := range extra {
						w[k] = v
					}
					return w
				}
			}
			if fromText {
				parts := make([]string, len(feats))
				for i := range feats {
					parts[i] = `{"type":"Feature","geometry":` + feats[i].geom.text(r) + `,"properties":` + c32PropsText(r, feats[i].props) + `}`
				}
				text := `{"type":"FeatureCollection","features":[` + strings.Join(parts, ",") + `]}`
				g, err := geojson.Unmarshal([]byte(text))
				if err != nil {
					sig := "geojson.Unmarshal-collection:error"
					c.Violate(sig, witB(-1)(map[string]any{"input": c32Clip(text, 2000)}), "geojson.Unmarshal of a FeatureCollection failed: %v", err)
					return
				}
				fc, ok := g.(*geojson.FeatureCollection)
				if !ok || len(fc.Features) != len(feats) {
					c.Violate("geojson.Unmarshal-collection:feature-count", witB(-1)(nil), "the parsed collection is a %T with a different number of features", g)
					return
				}
				collection = g
				c.Count("import_from_text")
			} else {
				fc := geojson.NewFeatureCollection()
				for i := range feats {
					f := geojson.NewFeatureWithGeometry(feats[i].geom.toPackage())
					for k, v := range feats[i].props {
						f.Properties[k] = v
					}
					fc.AddFeature(f)
				}
				collection = fc
				c.Count("import_from_memory")
			}
			if len(feats) == 0 {
				c.Count("empty_collection")
			}
			var added ingest.AddFeatures
			if p, cl, fr, _ := core.Protect(func() { added.FillFromGeoJSON(collection, ns) }); p {
				c.Violate("FillFromGeoJSON:panic@"+fr, witB(-1)(nil), "FillFromGeoJSON panicked: %s", cl)
				return
			}
			byValue := map[uint64][]ingest.Feature{}
			for _, f := range added {
				byValue[f.FeatureID().Value] = append(byValue[f.FeatureID().Value], f)
				if f.FeatureID().Namespace != ns {
					c.Violate("FillFromGeoJSON:namespace", witB(-1)(nil), "imported feature %s is not in namespace %q", f.FeatureID(), ns)
				}
			}
			present := make([]bool, len(feats))
			for i := range feats {
				fs := byValue[uint64(i)]
				delete(byValue, uint64(i))
				lt := strings.ToLower(feats[i].geom.typ)
				switch {
				case len(fs) == 0:
					// known-defect input classes keep their own signatures
					c.Violate("FillFromGeoJSON:"+lt+"-feature-dropped", witB(i)(nil), "GeoJSON feature %d (%s) of %d produced no feature", i, feats[i].geom.typ, len(feats))
				case len(fs) > 1:
					c.Violate("FillFromGeoJSON:"+lt+"-feature-duplicated", witB(i)(nil), "GeoJSON feature %d (%s) produced %d features", i, feats[i].geom.typ, len(fs))
				default:
					present[i] = true
					if feats[i].reserved != "" {
						c.Count("reserved_key_feature")
					}
					if feats[i].geom.typ == "MultiPolygon" {
						c.Count("multipolygon_imported")
					}
					if (feats[i].geom.typ == "Polygon" || feats[i].geom.typ == "MultiPolygon") && feats[i].orient >= 2 {
						c.Count("clockwise_shell_imported")
					}
					if feats[i].geom.typ == "MultiPoint" || feats[i].geom.typ == "MultiLineString" {
						// not dropped: nothing defined to compare against yet
						c.Count("multi_geometry_imported_unchecked")
						continue
					}
					c32CheckImported(c, "filled", i, &feats[i], fs[0], witB(i))
				}
			}
			for v, fs := range byValue {
				c.Violate("FillFromGeoJSON:feature-invented", witB(-1)(map[string]any{"id": fs[0].FeatureID().String()}), "imported feature with ID value %d corresponds to no GeoJSON feature", v)
			}

			// ---------- apply to a mutable world and look again
			var w ingest.MutableWorld
			if r.Bool() {
				w = ingest.NewBasicMutableWorld()
			} else {
				w = ingest.NewMutableOverlayWorld(ingest.NewBasicMutableWorld())
				c.Count("overlay_world")
			}
			var aerr error
			if p, cl, fr, _ := core.Protect(func() { _, aerr = added.Apply(w) }); p {
				c.Violate("Apply:panic@"+fr, witB(-1)(nil), "applying the imported features panicked: %s", cl)
				return
			}
			if aerr != nil {
				// attribute the failure: apply the features one by one to a fresh world
				w = ingest.NewBasicMutableWorld()
				attributed := false
				for i := range feats {
					if !present[i] {
						continue
					}
					one := ingest.AddFeatures{}
					for _, f := range added {
						if f.FeatureID().Value == uint64(i) {
							one = append(one, f)
						}
					}
					var oerr error
					if p, cl, fr, _ := core.Protect(func() { _, oerr = one.Apply(w) }); p {
						c.Violate("Apply:"+feats[i].sub()+"panic@"+fr, witB(i)(nil), "applying imported feature %d panicked: %s", i, cl)
						return
					}
					if oerr != nil {
						attributed = true
						present[i] = false
						c.Violate("Apply:"+feats[i].sub()+strings.ToLower(feats[i].geom.typ)+":error", witB(i)(map[string]any{"error": oerr.Error()}),
							"the world rejected imported feature %d (%s): %v", i, feats[i].geom.typ, oerr)
					}
				}
				if !attributed {
					c.Violate("Apply:error-only-as-a-whole", witB(-1)(map[string]any{"error": aerr.Error()}), "applying the imported features failed (%v) although each applies on its own", aerr)
					return
				}
				c.Count("apply_failed_attributed")
			}
			for i := range feats {
				if !present[i] || feats[i].geom.typ == "MultiPoint" || feats[i].geom.typ == "MultiLineString" {
					continue
				}
				id := c32IDOf(added, uint64(i))
				var wf b6.Feature
				if p, cl, fr, _ := core.Protect(func() { wf = w.FindFeatureByID(id) }); p {
					c.Violate("world:panic@"+fr, witB(i)(nil), "FindFeatureByID panicked: %s", cl)
					continue
				}
				if wf == nil {
					c.Violate("world:"+feats[i].sub()+strings.ToLower(feats[i].geom.typ)+":feature-missing", witB(i)(nil), "feature %s is not in the world after Apply", id)
					continue
				}
				if p, cl, fr, _ := core.Protect(func() { c32CheckImported(c, "world", i, &feats[i], wf, witB(i)) }); p {
					c.Violate("world:"+feats[i].sub()+"panic@"+fr, witB(i)(nil), "reading feature %s back from the world panicked: %s", id, cl)
				}
			}
		},
	})
}

func c32IDOf(a ingest.AddFeatures, v uint64) b6.FeatureID {
	for _, f := range a {
		if f.FeatureID().Value == v {
			return f.FeatureID()
		}
	}
	return b6.FeatureIDInvalid
}

func c32Clip(s string, n int) string {
	if len(s) > n {
		return s[:n] + "…"
	}
	return s
}
