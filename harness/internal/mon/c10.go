package mon

import (
	"encoding/binary"
	"fmt"
	"sort"
	"strings"
	"sync"

	"diagonal.works/b6"
	"diagonal.works/b6/encoding"
	"diagonal.works/b6/ingest"
	"diagonal.works/b6/ingest/compact"
	"diagonal.works/b6/renderer"
	"github.com/golang/geo/s1"
	"github.com/golang/geo/s2"
	"verif/internal/core"
)

// C10 Bit-packed identifiers decode to what was packed.
//
// The property text says "decided symbolically"; this family decides it by
// execution: exhaustively where a domain is small (type x namespace, geometry
// lengths to 2^20, every postcode position x character, all 2^32 renderer words
// in the thorough tier) and on structured bit patterns plus random words where
// it is 2^64. Every packing is built from shifts, masks and ORs of disjoint
// fields; a lost or overlapping bit shows on the all-zero word, single-bit and
// two-bit words, all-ones masks of every width and +-2^k+-1.
//
// Oracle: the packed value itself (decode(encode(x)) == x) and, for zigzag, the
// definition (x>=0 -> 2x, x<0 -> -2x-1) computed without shifts of signed values.
//
// Case i belongs to family i%7 and is chunk i/7 of that family:
//   0 encoding.ZigzagEncode/Decode          4 ingest.NewLatLngID/LatLngFromID
//   1 Uint64Map bucket header (hook)        5 GB postcodes, UK ONS codes
//   2 compact type+namespace, value type,   6 renderer zigzag (hook)
//     geometry encoding+length
//   3 b6.TileIDFromXYZ/ToXYZ

const c10families = 7

// c10ctx limits the violations reported per signature and case, so that one
// failing packing (a chunk evaluates ~10^5 inputs) cannot use up the per-case
// violation budget and hide a failure of another packing in the same chunk.
type c10ctx struct {
	*core.Ctx
	perSig map[string]int
}

func (c *c10ctx) Violate(sig string, witness any, format string, args ...any) {
	if c.perSig[sig] >= 2 {
		return
	}
	c.perSig[sig]++
	c.Ctx.Violate(sig, witness, format, args...)
}

var c10pat struct {
	once sync.Once
	w64  []uint64
	w32  []uint32
}

func c10patterns() ([]uint64, []uint32) {
	c10pat.once.Do(func() {
		seen := map[uint64]bool{}
		add := func(v uint64) {
			if !seen[v] {
				seen[v] = true
				c10pat.w64 = append(c10pat.w64, v)
			}
		}
		add(0)
		add(^uint64(0))
		for i := uint(0); i < 64; i++ {
			add(1 << i)              // single bits
			add(1<<i - 1)            // low masks of every width
			add(^(uint64(1)<<i - 1)) // high masks
			add(1<<i + 1)
			add(-(uint64(1) << i))     // -2^i
			add(-(uint64(1) << i) + 1) // -2^i+1
			add(-(uint64(1) << i) - 1) // -2^i-1
			add(^(uint64(1) << i))     // all ones but one
			for j := uint(0); j < i; j++ {
				add(1<<i | 1<<j) // two-bit words
			}
		}
		for _, v := range []uint64{0xaaaaaaaaaaaaaaaa, 0x5555555555555555, 0xff00ff00ff00ff00, 0x00ff00ff00ff00ff, 0xffffffff00000000, 0x00000000ffffffff, 0x8000000080000000} {
			add(v)
		}
		seen32 := map[uint32]bool{}
		add32 := func(v uint32) {
			if !seen32[v] {
				seen32[v] = true
				c10pat.w32 = append(c10pat.w32, v)
			}
		}
		add32(0)
		add32(^uint32(0))
		for i := uint(0); i < 32; i++ {
			add32(1 << i)
			add32(1<<i - 1)
			add32(^(uint32(1)<<i - 1))
			add32(1<<i + 1)
			add32(-(uint32(1) << i))
			add32(-(uint32(1) << i) + 1)
			add32(-(uint32(1) << i) - 1)
			add32(^(uint32(1) << i))
			for j := uint(0); j < i; j++ {
				add32(1<<i | 1<<j)
			}
		}
		add32(0xaaaaaaaa)
		add32(0x55555555)
	})
	return c10pat.w64, c10pat.w32
}

// ---------------------------------------------------------------------------
// 0: zigzag

// c10zigzag is the definition of zigzag coding: x >= 0 -> 2x, x < 0 -> -2x-1.
func c10zigzag(x int64) uint64 {
	if x >= 0 {
		return uint64(x) * 2
	}
	return uint64(^x)*2 + 1 // -2x-1 = 2(-x-1)+1 = 2(^x)+1
}

func c10family0(c *c10ctx, chunk int) {
	w64, _ := c10patterns()
	large := 0
	check := func(u uint64) {
		x := int64(u)
		want := c10zigzag(x)
		class := ""
		if x >= 1<<62 || x < -(1<<62) {
			class = ":|v|>=2^62"
			large++
		}
		if got := encoding.ZigzagEncode(x); got != want {
			c.Violate("ZigzagEncode:wrong"+class, nil, "ZigzagEncode(%d) = %#x, the definition gives %#x", x, got, want)
		}
		if got := encoding.ZigzagDecode(want); got != x {
			c.Violate("ZigzagDecode:wrong"+class, nil, "ZigzagDecode(%#x) = %d, it is the code of %d", want, got, x)
		}
		// every 64-bit word is the code of exactly one value
		if got := encoding.ZigzagEncode(encoding.ZigzagDecode(u)); got != u {
			class := ""
			if u>>63 == 1 { // the codes of the values of magnitude >= 2^62
				class = ":|v|>=2^62"
			}
			c.Violate("Zigzag:encode(decode)-differs"+class, nil, "ZigzagEncode(ZigzagDecode(%#x)) = %#x", u, got)
		}
	}
	for _, u := range w64 {
		check(u)
	}
	n := 1 << 16
	for i := 0; i < n; i++ {
		check(c.R.U64())
	}
	c.Add("evals_zigzag64", 3*(len(w64)+n))
	c.Add("zigzag_abs_ge_2_62", large)
	c.Nontrivial()
}

// ---------------------------------------------------------------------------
// 1: bucket headers for every layout the index builder creates

type c10layout struct {
	bucketBits, tagBits int
	tinyPointBlock      bool // the layout of a point block with <= 2 points
	requestedBucketBits int
}

var c10lay struct {
	once     sync.Once
	layouts  []c10layout
	mismatch string
	exact    int // counts for which the builder's own construction was run
}

// c10layouts enumerates the layouts of the feature blocks the compact builder
// creates for 1..2^40 features of each type (every count to 256, then 2^k-1,
// 2^k, 2^k+1 and 1.5*2^k). For counts up to 4096 the layout
// is read off the builder's own construction (hook VerifFeatureBlockLayout);
// beyond that (the construction allocates 2^bucketBits entries) it is composed
// from the builder's bucketBitsForCount and tagBits and the layout function of
// the map builder, and the composition is checked against the construction on
// the small counts.
func c10layouts() ([]c10layout, string, int) {
	c10lay.once.Do(func() {
		tagBits := compact.VerifTagBits()
		types := make([]b6.FeatureType, 0, len(tagBits))
		for t := range tagBits {
			types = append(types, t)
		}
		sort.Slice(types, func(i, j int) bool { return types[i] < types[j] })
		var counts []uint64
		for c := uint64(1); c <= 256; c++ {
			counts = append(counts, c)
		}
		for k := uint(8); k <= 40; k++ {
			for _, c := range []uint64{1<<k - 1, 1 << k, 1<<k + 1, 1<<k + 1<<(k-1)} {
				if c > 256 && c <= 1<<40 {
					counts = append(counts, c)
				}
			}
		}
		seen := map[[2]int]int{}
		for _, t := range types {
			for _, count := range counts {
				requested := compact.VerifBucketBitsForCount(count)
				l := encoding.VerifUint64MapLayout(requested, tagBits[t])
				if count <= 4096 {
					real := compact.VerifFeatureBlockLayout(t, count)
					c10lay.exact++
					if real != l && c10lay.mismatch == "" {
						c10lay.mismatch = fmt.Sprintf("the builder creates layout %+v for %d features of type %s, bucketBitsForCount/tagBits/layout function give %+v", real, count, t, l)
					}
					l = real
				}
				key := [2]int{l.BucketBits, l.TagBits}
				tiny := t == b6.FeatureTypePoint && count <= 2
				if i, ok := seen[key]; ok {
					if tiny {
						c10lay.layouts[i].tinyPointBlock = true
					}
					continue
				}
				seen[key] = len(c10lay.layouts)
				c10lay.layouts = append(c10lay.layouts, c10layout{bucketBits: l.BucketBits, tagBits: l.TagBits, tinyPointBlock: tiny, requestedBucketBits: requested})
			}
		}
	})
	return c10lay.layouts, c10lay.mismatch, c10lay.exact
}

var c10lengths = []int{0, 1, 127, 128, 16383, 16384, 1<<31 - 1, 1 << 31, 1 << 40, 1<<62 - 1}

func c10family1(c *c10ctx, chunk int) {
	layouts, mismatch, exact := c10layouts()
	if mismatch != "" {
		c.Inconclusive("layouts beyond 4096 features are composed from parts that do not agree with the builder: " + mismatch)
	}
	c.Add("bucket_layouts_from_builder_construction", exact)
	c.Max("bucket_layouts", int64(len(layouts)))
	w64, _ := c10patterns()
	evals, tiny := 0, 0
	check := func(l c10layout, id uint64, tag encoding.Tag, length int) {
		evals++
		gotID, gotTag, gotLength, w, rd := encoding.VerifBucketHeaderRoundTrip(id, tag, length, l.bucketBits, l.tagBits)
		class := ""
		if l.bucketBits < l.tagBits {
			class = ":bucketBits<tagBits"
		}
		if l.tinyPointBlock && id>>63 == 1 {
			tiny++
		}
		if gotID != id {
			c.Violate("BucketHeader:id-differs"+class, map[string]any{"bucketBits": l.bucketBits, "tagBits": l.tagBits, "id": fmt.Sprintf("%#x", id), "tag": int(tag), "read_id": fmt.Sprintf("%#x", gotID)},
				"layout bucketBits %d tagBits %d (builder asked for %d bucket bits): header of ID %#x tag %d reads back as ID %#x", l.bucketBits, l.tagBits, l.requestedBucketBits, id, int(tag), gotID)
		}
		if gotTag != tag {
			c.Violate("BucketHeader:tag-differs"+class, nil, "layout bucketBits %d tagBits %d: header of ID %#x tag %d reads back with tag %d", l.bucketBits, l.tagBits, id, int(tag), int(gotTag))
		}
		if gotLength != length {
			c.Violate("BucketHeader:length-differs"+class, nil, "layout bucketBits %d tagBits %d: header of ID %#x tag %d length %d reads back with length %d", l.bucketBits, l.tagBits, id, int(tag), length, gotLength)
		}
		if w != rd {
			c.Violate("BucketHeader:consumed-differs"+class, nil, "layout bucketBits %d tagBits %d: header of ID %#x tag %d length %d: wrote %d bytes, read %d", l.bucketBits, l.tagBits, id, int(tag), length, w, rd)
		}
	}
	const slices = 8
	for _, l := range layouts {
		tags := 1 << uint(l.tagBits)
		n := 0
		for i := chunk % slices; i < len(w64); i += slices {
			for tag := 0; tag < tags; tag++ {
				check(l, w64[i], encoding.Tag(tag), c10lengths[n%len(c10lengths)])
				n++
			}
		}
		// the extreme IDs under every tag and length in every chunk
		for _, id := range []uint64{0, 1, ^uint64(0), 1 << 63, 1<<63 | 5, 1<<63 - 1, 1 << 62, 1<<uint(l.bucketBits) - 1, 1 << uint(l.bucketBits)} {
			for tag := 0; tag < tags; tag++ {
				for _, length := range c10lengths {
					check(l, id, encoding.Tag(tag), length)
				}
			}
		}
		for i := 0; i < 256; i++ {
			u := c.R.U64()
			check(l, u, encoding.Tag(int(u>>7)%tags), c10lengths[int(u>>3)%len(c10lengths)])
		}
	}
	c.Add("evals_bucket_header", evals)
	c.Add("bucket_tiny_point_block_id_bit63", tiny)
	c.Nontrivial()
}

// ---------------------------------------------------------------------------
// 2: compact packings

func c10family2(c *c10ctx, chunk int) {
	w64, _ := c10patterns()
	evals := 0
	if chunk == 0 {
		// exhaustive: 7 type codes (4 geometric feature types, invalid, collection, expression) x 2^13 namespaces, and back from every
		// 16-bit word whose type field names a feature type
		// (collections and expressions are numbered after FeatureTypeInvalid = FeatureTypeEnd:
		// relations and collections refer to them, so their ids are packed too)
		for t := b6.FeatureTypeBegin; t <= b6.FeatureTypeExpression; t++ {
			for ns := 0; ns < 1<<13; ns++ {
				tn := compact.CombineTypeAndNamespace(t, compact.Namespace(ns))
				gt, gns := tn.Split()
				evals++
				if gt != t || int(gns) != ns {
					c.Violate("TypeAndNamespace:split(combine)-differs", nil, "CombineTypeAndNamespace(%s, %d).Split() = (%s, %d)", t, ns, gt, gns)
				}
			}
		}
		for w := 0; w < 1<<16; w++ {
			t, ns := compact.TypeAndNamespace(w).Split()
			if t > b6.FeatureTypeExpression {
				continue
			}
			evals++
			if got := compact.CombineTypeAndNamespace(t, ns); int(got) != w {
				c.Violate("TypeAndNamespace:combine(split)-differs", nil, "TypeAndNamespace(%#x).Split() = (%s, %d), which combines to %#x", w, t, ns, int(got))
			}
		}
		c.Count("typens_exhaustive")
		// compact.Reference: an id packed as value<<1 when it is in the primary type+namespace
		// and its top bit is clear, as (type+namespace<<1|1, value) otherwise
		var rb [2 * binary.MaxVarintLen64]byte
		for _, v := range w64 {
			for _, tn := range []compact.TypeAndNamespace{compact.CombineTypeAndNamespace(b6.FeatureTypePoint, 1), compact.CombineTypeAndNamespace(b6.FeatureTypeRelation, 8191), compact.CombineTypeAndNamespace(b6.FeatureTypeExpression, 5)} {
				for _, primary := range []compact.TypeAndNamespace{tn, compact.CombineTypeAndNamespace(b6.FeatureTypePath, 2), compact.TypeAndNamespaceInvalid} {
					in := compact.Reference{TypeAndNamespace: tn, Value: v}
					n := in.Marshal(primary, rb[:])
					var out compact.Reference
					out.TypeAndNamespace = primary // what Unmarshal leaves for the short form
					m := out.Unmarshal(primary, rb[:n])
					evals++
					if m != n || out != in {
						c.Violate("Reference:unmarshal(marshal)-differs", nil, "Reference{%#x, %#x} with primary %#x marshals to %d bytes and reads back as {%#x, %#x} from %d bytes", uint64(tn), v, uint64(primary), n, uint64(out.TypeAndNamespace), out.Value, m)
					}
				}
			}
		}
		c.Count("reference_packing")
	}
	encodings := []compact.GeometryEncoding{compact.GeometryEncodingReferences, compact.GeometryEncodingLatLngs, compact.GeometryEncodingMixed}
	var buffer [binary.MaxVarintLen64]byte
	geometry := func(e compact.GeometryEncoding, l int) {
		evals++
		v := compact.EncodeGeometry(e, l)
		if gl, ge := compact.DecodeGeometryLen(v), compact.DecodeGeometryEncoding(v); gl != l || ge != e {
			c.Violate("EncodeGeometry:decode-differs", nil, "EncodeGeometry(%d, %d) = %#x decodes to encoding %d length %d", e, l, v, ge, gl)
		}
		n := compact.MarshalGeometryEncodingAndLength(e, l, buffer[0:])
		if ge, gl, rd := compact.UnmarshalGeometryEncodingAndLength(buffer[0:n:n]); gl != l || ge != e || rd != n {
			c.Violate("MarshalGeometryEncodingAndLength:unmarshal-differs", nil, "(%d, %d) marshalled in %d bytes unmarshals to (%d, %d) from %d bytes", e, l, n, ge, gl, rd)
		}
		// as a tag value: the geometry word sits above the value type bits
		tv := compact.EncodeValueType(b6.ExpressionTypeExpressions, v)
		n = binary.PutUvarint(buffer[0:], tv)
		dv, rd := compact.DecodeValue(buffer[0:n:n])
		if dv != v || rd != n || tv&3 != uint64(b6.ExpressionTypeExpressions) {
			c.Violate("EncodeValueType:geometry-differs", nil, "EncodeValueType(Expressions, %#x) = %#x decodes to %#x", v, tv, dv)
		}
		if ml := (compact.MarshalledReferences(buffer[0:n:n])).Len(); ml != l {
			c.Violate("MarshalledReferences.Len:wrong", nil, "a list of encoding %d and length %d reports Len() = %d", e, l, ml)
		}
	}
	// exhaustive lengths 0..2^20, 2^15 per chunk
	if chunk < 32 {
		for l := chunk << 15; l < (chunk+1)<<15; l++ {
			for _, e := range encodings {
				geometry(e, l)
			}
		}
		if chunk == 31 {
			for _, e := range encodings {
				geometry(e, 1<<20)
			}
		}
		c.Count("geometry_len_exhaustive_chunks")
	}
	// large lengths: everything that fits under the encoding and value type bits (l < 2^58)
	for i, u := range w64 {
		l := int(u & (1<<58 - 1))
		geometry(encodings[i%3], l)
	}
	for i := 0; i < 1<<14; i++ {
		u := c.R.U64()
		geometry(encodings[int(u>>60)%3], int((u&(1<<58-1))>>uint((u>>52)%58)))
	}
	c.Count("geometry_len_large")
	// value types: every type x values below 2^62 (EncodeValueType rejects larger ones)
	value := func(t b6.ExpressionType, v uint64) {
		evals++
		tv := compact.EncodeValueType(t, v)
		n := binary.PutUvarint(buffer[0:], tv)
		dv, rd := compact.DecodeValue(buffer[0:n:n])
		if dv != v || rd != n {
			c.Violate("EncodeValueType:value-differs", nil, "EncodeValueType(%d, %#x) = %#x decodes to %#x (%d of %d bytes)", t, v, tv, dv, rd, n)
		}
		if b6.ExpressionType(tv&(1<<compact.ValueTypeBits-1)) != t {
			c.Violate("EncodeValueType:type-differs", nil, "EncodeValueType(%d, %#x) = %#x carries type %d", t, v, tv, tv&3)
		}
	}
	for _, u := range w64 {
		for t := b6.ExpressionTypeString; t < b6.ExpressionTypeInvalid; t++ {
			value(t, u&(1<<62-1))
		}
	}
	for i := 0; i < 1<<14; i++ {
		u := c.R.U64()
		value(b6.ExpressionType(u>>62), u&(1<<62-1))
	}
	c.Count("valuetype_top_bit_61")
	c.Add("evals_compact_packings", evals)
	c.Nontrivial()
}

// ---------------------------------------------------------------------------
// 3: tile IDs

func c10family3(c *c10ctx, chunk int) {
	evals, z29 := 0, 0
	check := func(x, y, z uint) {
		evals++
		id := b6.TileIDFromXYZ(x, y, z)
		if gx, gy, gz := id.ToXYZ(); gx != x || gy != y || gz != z {
			c.Violate("TileID:toXYZ(fromXYZ)-differs", nil, "TileIDFromXYZ(%d, %d, %d) = %#x decodes to (%d, %d, %d)", x, y, z, uint64(id), gx, gy, gz)
		}
		t := b6.Tile{X: x, Y: y, Z: z}
		if got := t.ToID().ToTile(); got != t {
			c.Violate("TileID:toTile(toID)-differs", nil, "tile %s: ToID().ToTile() = %s", t, got)
		}
		if got := b6.TileIDFromToken(id.ToToken()); got != id {
			c.Violate("TileID:token-differs", nil, "tile %s: ID %#x has token %q, which parses to %#x", t, uint64(id), id.ToToken(), uint64(got))
		}
		if z == 29 {
			z29++
		}
	}
	for z := uint(0); z <= 29; z++ {
		max := uint(1)<<z - 1
		set := map[uint]bool{0: true, max: true}
		for _, v := range []uint{1, 2, 3, max - 1, max - 2, max / 2, max/2 + 1, max / 3, 0x55555555 & max, 0xaaaaaaaa & max} {
			if v <= max { // max-1 wraps for z = 0
				set[v] = true
			}
		}
		for i := uint(0); i < z; i++ {
			set[1<<i] = true
			set[1<<i-1] = true
			set[max&^(1<<i)] = true
			set[max&^(1<<i-1)] = true
		}
		coords := make([]uint, 0, len(set))
		for v := range set {
			coords = append(coords, v)
		}
		sort.Slice(coords, func(i, j int) bool { return coords[i] < coords[j] })
		for _, x := range coords {
			for _, y := range coords {
				check(x, y, z)
			}
		}
		for i := 0; i < 1<<11; i++ {
			u := c.R.U64()
			check(uint(u)&max, uint(u>>32)&max, z)
		}
	}
	c.Add("evals_tile_ids", 3*evals)
	c.Add("tile_z29", z29)
	c.Nontrivial()
}

// ---------------------------------------------------------------------------
// 4: lat/lng point IDs

func c10family4(c *c10ctx, chunk int) {
	_, w32 := c10patterns()
	evals, skipped, negative := 0, 0, 0
	check := func(latE7, lngE7 int32) {
		ll := s2.LatLng{Lat: s1.Angle(latE7) * s1.E7, Lng: s1.Angle(lngE7) * s1.E7}
		if ll.Lat.E7() != latE7 || ll.Lng.E7() != lngE7 {
			skipped++ // not representable as an angle that reads back as this E7 value
			return
		}
		evals++
		id := ingest.NewLatLngID(ll)
		if id.Type != b6.FeatureTypePoint || id.Namespace != b6.NamespaceLatLng {
			c.Violate("LatLngID:wrong-type-or-namespace", nil, "NewLatLngID(%d, %d) = %s", latE7, lngE7, id)
		}
		back, ok := ingest.LatLngFromID(id)
		if !ok || back.Lat.E7() != latE7 || back.Lng.E7() != lngE7 {
			c.Violate("LatLngID:fromID(newID)-differs", nil, "NewLatLngID(E7 %d, %d) = %#x decodes to E7 (%d, %d) ok=%v", latE7, lngE7, id.Value, back.Lat.E7(), back.Lng.E7(), ok)
		}
		if latE7 < 0 && lngE7 < 0 {
			negative++
		}
	}
	// int32 boundaries: every pattern word against a slice of the others
	extremes := []int32{0, 1, -1, 1<<31 - 1, -1 << 31, -1<<31 + 1, 1<<31 - 2, 900000000, -900000000, 1800000000, -1800000000, 515361156, -1263126}
	for _, a := range w32 {
		for _, b := range extremes {
			check(int32(a), b)
			check(b, int32(a))
		}
	}
	const slices = 8
	for i := chunk % slices; i < len(w32); i += slices {
		for j := 0; j < len(w32); j += 3 {
			check(int32(w32[i]), int32(w32[(j+chunk)%len(w32)]))
		}
	}
	for i := 0; i < 1<<15; i++ {
		u := c.R.U64()
		check(int32(u), int32(u>>32))
	}
	c.Add("evals_latlng_ids", evals)
	c.Add("latlng_not_representable", skipped)
	c.Add("latlng_both_negative", negative)
	c.Nontrivial()
}

// ---------------------------------------------------------------------------
// 5: postcodes and ONS codes

const c10alphabet = "0123456789ABCDEFGHIJKLMNOPQRSTUVWXYZ"

func c10family5(c *c10ctx, chunk int) {
	evals, len7, y2155 := 0, 0, 0
	postcode := func(p string) {
		evals++
		id := b6.PointIDFromGBPostcode(p)
		if id.Type != b6.FeatureTypePoint || id.Namespace != b6.NamespaceGBCodePoint {
			c.Violate("Postcode:wrong-type-or-namespace", nil, "PointIDFromGBPostcode(%q) = %s", p, id)
			return
		}
		back, ok := b6.PostcodeFromPointID(id)
		if !ok || back != p {
			c.Violate(fmt.Sprintf("Postcode:fromID(toID)-differs:length-%d", len(p)), nil, "PointIDFromGBPostcode(%q) = %#x, which decodes to %q ok=%v", p, id.Value, back, ok)
		}
		if len(p) == 7 {
			len7++
		}
	}
	random := func(l int) []byte {
		b := make([]byte, l)
		for i := range b {
			b[i] = c10alphabet[c.R.Intn(len(c10alphabet))]
		}
		return b
	}
	for l := 5; l <= 7; l++ {
		bases := [][]byte{random(l)}
		if chunk == 0 {
			bases = append(bases, []byte(strings.Repeat("0", l)), []byte(strings.Repeat("Z", l)), []byte(strings.Repeat("9", l)), []byte(strings.Repeat("A", l)))
		}
		for _, base := range bases {
			postcode(string(base))
			// every position x every character
			for i := 0; i < l; i++ {
				p := append([]byte(nil), base...)
				for k := 0; k < len(c10alphabet); k++ {
					p[i] = c10alphabet[k]
					postcode(string(p))
				}
			}
			// all 2-position combinations
			for i := 0; i < l; i++ {
				for j := i + 1; j < l; j++ {
					p := append([]byte(nil), base...)
					for k := 0; k < len(c10alphabet); k++ {
						for m := 0; m < len(c10alphabet); m++ {
							p[i], p[j] = c10alphabet[k], c10alphabet[m]
							postcode(string(p))
						}
					}
				}
			}
		}
		for i := 0; i < 1<<12; i++ {
			postcode(string(random(l)))
		}
		// spelling variants name the same point
		p := random(l)
		canonical := b6.PointIDFromGBPostcode(string(p))
		variant := strings.ToLower(string(p[:l-3])) + " " + string(p[l-3:])
		evals++
		if got := b6.PointIDFromGBPostcode(variant); got != canonical {
			c.Violate("Postcode:spelling-variant-differs", nil, "%q has ID %#x, %q has ID %#x", p, canonical.Value, variant, got.Value)
		}
	}
	c.Add("evals_postcodes", evals)
	c.Add("postcode_len7", len7)

	evals = 0
	numbers := []int{0, 1, 9, 10, 99, 100, 99999999, 99999998, 10000000, 9999999, 1000001, 6000001, 92000001, 1<<24 - 1, 1 << 24, 1<<26 + 1}
	for i := 0; i < 16; i++ {
		numbers = append(numbers, c.R.Intn(100000000))
	}
	years := []int{1900, 1901, 1999, 2000, 2011, 2021, 2027, 2028, 2154, 2155, c.R.Range(1900, 2155), c.R.Range(1900, 2155)}
	types := []b6.FeatureType{b6.FeatureTypePoint, b6.FeatureTypePath, b6.FeatureTypeArea, b6.FeatureTypeRelation}
	for letter := byte('A'); letter <= 'Z'; letter++ {
		for _, n := range numbers {
			code := fmt.Sprintf("%c%08d", letter, n)
			for yi, year := range years {
				t := types[(yi+n+int(letter))%len(types)]
				evals++
				id := b6.FeatureIDFromUKONSCode(code, year, t)
				if id.Type != t || id.Namespace != b6.NamespaceUKONSBoundaries {
					c.Violate("ONSCode:wrong-type-or-namespace", nil, "FeatureIDFromUKONSCode(%q, %d, %s) = %s", code, year, t, id)
					continue
				}
				gc, gy, ok := b6.UKONSCodeFromFeatureID(id)
				if !ok || gc != code || gy != year {
					c.Violate("ONSCode:fromID(toID)-differs", nil, "FeatureIDFromUKONSCode(%q, %d, %s) = %#x, which decodes to (%q, %d) ok=%v", code, year, t, id.Value, gc, gy, ok)
				}
				if year == 2155 {
					y2155++
				}
			}
		}
	}
	c.Add("evals_ons_codes", evals)
	c.Add("ons_year_2155", y2155)
	c.Nontrivial()
}

// ---------------------------------------------------------------------------
// 6: renderer zigzag (32 bit)

func c10zigzag32(x int32) uint32 {
	if x >= 0 {
		return uint32(x) * 2
	}
	return uint32(^x)*2 + 1
}

func c10family6(c *c10ctx, chunk int) {
	_, w32 := c10patterns()
	failures, large := 0, 0
	check := func(u uint32) {
		x := int32(u)
		want := c10zigzag32(x)
		if enc := renderer.VerifZigzagEncode(int(x)); enc != want {
			if failures < 4 {
				c.Violate("RendererZigzag:encode-wrong", nil, "zigzagEncode(%d) = %#x, the definition gives %#x", x, enc, want)
			}
			failures++
		}
		if dec := renderer.VerifZigzagDecode(want); dec != int(x) {
			if failures < 4 {
				class := ""
				if x >= 1<<30 || x < -(1<<30) {
					class = ":|v|>=2^30"
				}
				c.Violate("RendererZigzag:decode-wrong"+class, nil, "zigzagDecode(%#x) = %d, it is the code of %d", want, dec, x)
			}
			failures++
		}
		if x >= 1<<30 || x < -(1<<30) {
			large++
		}
	}
	for _, u := range w32 {
		check(u)
	}
	evals := len(w32)
	if chunk < 1<<12 {
		// exhaustive: chunk k covers the words k*2^20 .. (k+1)*2^20-1
		base := uint32(chunk) << 20
		for i := uint32(0); i < 1<<20; i++ {
			check(base + i)
		}
		evals += 1 << 20
		c.Count("renderer_exhaustive_chunks")
	}
	for i := 0; i < 1<<14; i++ {
		check(uint32(c.R.U64()))
	}
	evals += 1 << 14
	c.Add("evals_renderer_zigzag", 2*evals)
	c.Add("renderer_abs_ge_2_30", large)
	c.Nontrivial()
}

func init() {
	core.Register(&core.Monitor{
		ID:        "C10",
		Title:     "Bit-packed identifiers decode to what was packed",
		Technique: "exhaustive-where-small plus structured bit-pattern and random sampling of each encode/decode pair (execution, not a symbolic proof)",
		Rule: "case i is chunk i/7 of family i%7 (zigzag64; bucket header under every layout the builder creates for 1..2^40 features x type; type+namespace for all seven type codes, compact.Reference packing, value type, geometry length; " +
			"tile IDs z 0..29; lat/lng IDs; postcodes + ONS codes; renderer zigzag); a chunk evaluates the family's structured patterns (0, all ones, single and two-bit words, masks of every width, +-2^k+-1), " +
			"its slice of the exhaustive sweeps (type x namespace in chunk 0, geometry lengths 0..2^20 over chunks 0..31, every postcode position x character and position pair, renderer words [chunk*2^20,(chunk+1)*2^20) over chunks 0..4095) " +
			"and fresh random words; distinct = distinct (family, chunk); non-trivial = the chunk includes inputs with the highest bit of the domain set (ID bit 63, |v| >= 2^62, zoom 29, 7-character postcodes), which every chunk does",
		Assumptions: []string{
			"held on N executions, not a proof: the 2^64 domains are sampled on bit patterns on which a lost or overlapping field of a shift/mask/OR packing shows",
			"layouts for more than 4096 features are composed from bucketBitsForCount, tagBits and the map builder's layout function (checked against the builder's own construction for 1..4096 features of every type)",
			"s1.Angle.E7 (s2 library) is trusted to read back an angle built from an E7 integer",
			"domains: tags < 2^tagBits, values < 2^62 for EncodeValueType, lengths < 2^58, x,y < 2^z, postcodes of 5-7 characters from A-Z0-9, ONS codes of a capital letter and 8 digits with years 1900..2155",
		},
		Quick: 224, Thorough: 28700,
		Required: []string{
			"evals_zigzag64", "zigzag_abs_ge_2_62", "evals_bucket_header", "bucket_tiny_point_block_id_bit63", "bucket_layouts_from_builder_construction",
			"evals_compact_packings", "typens_exhaustive", "geometry_len_exhaustive_chunks", "evals_tile_ids", "tile_z29",
			"evals_latlng_ids", "latlng_both_negative", "evals_postcodes", "postcode_len7", "evals_ons_codes", "ons_year_2155",
			"evals_renderer_zigzag", "renderer_abs_ge_2_30", "renderer_exhaustive_chunks",
		},
		Run: func(cc *core.Ctx) {
			c := &c10ctx{Ctx: cc, perSig: map[string]int{}}
			family, chunk := c.Index%c10families, c.Index/c10families
			c.Key("family %d chunk %d", family, chunk)
			if c.Index < c10families {
				c.Sample(map[string]any{"family": family, "chunk": chunk})
			}
			switch family {
			case 0:
				c10family0(c, chunk)
			case 1:
				c10family1(c, chunk)
			case 2:
				c10family2(c, chunk)
			case 3:
				c10family3(c, chunk)
			case 4:
				c10family4(c, chunk)
			case 5:
				c10family5(c, chunk)
			case 6:
				c10family6(c, chunk)
			}
		},
	})
}
