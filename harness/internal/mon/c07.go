package mon

import (
	"fmt"
	"math/bits"
	"runtime/debug"
	"sort"
	"strings"

	"diagonal.works/b6/search"
	"verif/internal/core"
)

// C07 AVL tree index stays a balanced sorted set across any edit history.
//
// Oracle: a reference set over the keys 0..63 (a uint64 bitset). After every
// mutating operation the export hook walks the real tree and the monitor checks
// BST order, |height(l)-height(r)| <= 1, balance field == hr-hl, parent
// pointers, no reachable node carrying the deleted mark, node count and in-order
// content == reference, Len() == reference size.
//
// Open iterators: per iterator the monitor keeps `mustSee` = the values that
// have been present ever since the iterator was opened, are above its position
// and were not skipped by an Advance. A returned value must be in the set at
// that moment, must be above the previous one (Advance: not below), must not
// jump over a mustSee value; an iterator that reports exhaustion must have an
// empty mustSee. Values inserted after Begin may or may not be seen.

type c07set uint64

func (s c07set) has(k int) bool { return k >= 0 && k < 64 && s&(1<<uint(k)) != 0 }
func (s *c07set) add(k int)     { *s |= 1 << uint(k) }
func (s *c07set) del(k int)     { *s &^= 1 << uint(k) }
func (s c07set) size() int      { return bits.OnesCount64(uint64(s)) }
func (s c07set) keys() []int {
	var out []int
	for k := 0; k < 64; k++ {
		if s.has(k) {
			out = append(out, k)
		}
	}
	return out
}

// between returns the members k with lo <= k < hi.
func (s c07set) between(lo, hi int) c07set {
	if lo < 0 {
		lo = 0
	}
	if hi > 64 {
		hi = 64
	}
	if lo >= hi {
		return 0
	}
	var mask uint64
	if hi-lo == 64 {
		mask = ^uint64(0)
	} else {
		mask = ((uint64(1) << uint(hi-lo)) - 1) << uint(lo)
	}
	return s & c07set(mask)
}

func (s c07set) String() string { return fmt.Sprint(s.keys()) }

// c07val is the stored value: ordered by key only; gen tells re-insertions apart.
type c07val struct{ k, gen int }

type c07values struct{}

func (c07values) Compare(a, b search.Value) search.Comparison {
	return c06cmpInt(a.(c07val).k, b.(c07val).k)
}
func (c07values) CompareKey(v search.Value, k search.Key) search.Comparison {
	return c06cmpInt(v.(c07val).k, k.(int))
}
func (c07values) Key(v search.Value) search.Key { return v.(c07val).k }

func c07keyOf(v search.Value) (int, bool) {
	switch x := v.(type) {
	case c07val:
		return x.k, true
	case int:
		return x, true
	}
	return -1, false
}

// c07realIter is what both the hook iterator and search.Iterator offer.
type c07realIter interface {
	Next() bool
	Advance(key search.Key) bool
	Value() search.Value
}

// c07iter is one open iterator with its bookkeeping.
type c07iter struct {
	id         int
	it         c07realIter
	started    bool
	last       int
	mustSee    c07set
	deleted    c07set // values deleted at some time since Begin (for the signature only)
	onDeleted  bool   // the node the iterator stands on was deleted since the iterator last moved
	reinserted bool   // ... and its key was inserted again
	trace      []string
}

// c07shape describes the tree found by a walk, keyed by value key.
type c07shape struct {
	keys     []int
	children map[int][2]int // key -> (left key, right key), -1 for none
	rootKey  int
	height   int
}

type c07checker struct {
	c      *core.Ctx
	script *[]string
	what   string // "treeList" or "TreeIndex token x"
	broken bool
}

func (ch *c07checker) witness(extra map[string]any) map[string]any {
	w := map[string]any{"tree": ch.what, "history": append([]string{}, (*ch.script)...)}
	for k, v := range extra {
		w[k] = v
	}
	return w
}

func c07renderWalk(w search.VerifWalk) string {
	var sb strings.Builder
	for i, n := range w.Nodes {
		if i > 0 {
			sb.WriteByte(' ')
		}
		k, _ := c07keyOf(n.Value)
		fmt.Fprintf(&sb, "%d(d%d b%d h%d/%d", k, n.Depth, n.Balance, n.LeftH, n.RightH)
		if !n.ParentOK {
			sb.WriteString(" BAD-PARENT")
		}
		if n.Deleted {
			sb.WriteString(" DELETED-MARK")
		}
		sb.WriteByte(')')
	}
	return sb.String()
}

// validate checks every structural invariant of one walked tree against the reference set.
// opclass names the operation that has just run (for the signature).
func (ch *c07checker) validate(w search.VerifWalk, ref c07set, opclass string) *c07shape {
	c := ch.c
	fail := func(kind string, format string, args ...any) {
		ch.broken = true
		c.Violate(opclass+":"+kind, ch.witness(map[string]any{"walk": c07renderWalk(w), "reference": ref.String()}),
			"%s after %s: %s; walk (key(depth balance hl/hr)): %s; reference %s", ch.what, opclass, fmt.Sprintf(format, args...), c07renderWalk(w), ref)
	}
	if w.Truncated {
		fail("walk-does-not-end", "more than the node budget is reachable from the root (a cycle?)")
		return nil
	}
	sh := &c07shape{children: map[int][2]int{}, rootKey: -1}
	prev := -1
	for i, n := range w.Nodes {
		k, ok := c07keyOf(n.Value)
		if !ok {
			fail("foreign-value", "node %d holds %v", i, n.Value)
			return nil
		}
		if i > 0 && k <= prev {
			fail("bst-order", "in-order walk is not strictly increasing at %d after %d", k, prev)
			return nil
		}
		prev = k
		sh.keys = append(sh.keys, k)
	}
	for i, n := range w.Nodes {
		k := sh.keys[i]
		l, r := -1, -1
		if n.Left >= 0 {
			l = sh.keys[n.Left]
		}
		if n.Right >= 0 {
			r = sh.keys[n.Right]
		}
		sh.children[k] = [2]int{l, r}
		if d := n.RightH - n.LeftH; d > 1 || d < -1 {
			fail("height-imbalance", "node %d has subtree heights %d and %d", k, n.LeftH, n.RightH)
			return nil
		}
		if n.Balance != n.RightH-n.LeftH {
			fail("balance-field", "node %d stores balance %d, its subtree heights are %d and %d", k, n.Balance, n.LeftH, n.RightH)
			return nil
		}
		if !n.ParentOK {
			fail("parent-pointer", "node %d has a wrong parent pointer", k)
			return nil
		}
		if n.Deleted {
			fail("deleted-node-reachable", "node %d is reachable but carries the deleted mark", k)
			return nil
		}
	}
	if w.Root >= 0 {
		sh.rootKey = sh.keys[w.Root]
		sh.height = w.Nodes[w.Root].Height
	}
	want := ref.keys()
	if len(want) != len(sh.keys) {
		fail("content", "the tree holds %d values %v, the reference set %d", len(sh.keys), sh.keys, len(want))
		return nil
	}
	for i := range want {
		if want[i] != sh.keys[i] {
			fail("content", "the tree holds %v", sh.keys)
			return nil
		}
	}
	c.Max("max_height", int64(sh.height))
	c.Max("max_nodes", int64(len(sh.keys)))
	return sh
}

// changedNodes counts nodes present before and after whose children differ.
func c07changedNodes(a, b *c07shape) int {
	if a == nil || b == nil {
		return 0
	}
	n := 0
	for k, ch := range a.children {
		if nb, ok := b.children[k]; ok && nb != ch {
			n++
		}
	}
	return n
}

// iterator checks -------------------------------------------------------------

func (ch *c07checker) iterNext(it *c07iter, set c07set) (ended bool) {
	c := ch.c
	suffix := ""
	if it.onDeleted {
		suffix = ":after-delete-of-current"
		c.Count("iter_next_after_delete_of_current")
		if it.reinserted {
			c.Count("iter_next_current_deleted_and_reinserted")
		}
		if set == 0 {
			c.Count("iter_next_current_deleted_tree_empty")
		}
	}
	if !it.started {
		c.Count("iter_next_first_call")
	}
	ok := it.it.Next()
	lo := 0
	if it.started {
		lo = it.last + 1
	}
	w := func() map[string]any {
		return ch.witness(map[string]any{"iterator": it.id, "iterator_calls": it.trace, "set_now": set.String(), "must_see": it.mustSee.String()})
	}
	if !ok {
		it.trace = append(it.trace, "Next=false")
		if missed := it.mustSee.between(lo, 64); missed != 0 {
			c.Violate("iterator:Next:exhausted-early"+suffix, w(), "%s: iterator %d %v reported the end, but %v were present ever since it was opened and lie above its position; set now %v",
				ch.what, it.id, it.trace, missed, set)
		}
		return true
	}
	k, isKey := c07keyOf(it.it.Value())
	it.trace = append(it.trace, fmt.Sprintf("Next=%d", k))
	switch {
	case !isKey:
		c.Violate("iterator:Next:foreign-value"+suffix, w(), "%s: iterator %d returned %v", ch.what, it.id, it.it.Value())
		return true
	case it.started && k == it.last:
		c.Violate("iterator:Next:repeat"+suffix, w(), "%s: iterator %d %v returned %d twice; set now %v", ch.what, it.id, it.trace, k, set)
		return true
	case it.started && k < it.last:
		c.Violate("iterator:Next:backwards"+suffix, w(), "%s: iterator %d %v went back from %d to %d; set now %v", ch.what, it.id, it.trace, it.last, k, set)
		return true
	case !set.has(k):
		kind := "value-not-in-set"
		if it.deleted.has(k) {
			kind = "returned-deleted-value"
		}
		c.Violate("iterator:Next:"+kind+suffix, w(), "%s: iterator %d %v returned %d, which is not in the set now %v", ch.what, it.id, it.trace, k, set)
		return true
	}
	if missed := it.mustSee.between(lo, k); missed != 0 {
		c.Violate("iterator:Next:skipped-value-present-throughout"+suffix, w(), "%s: iterator %d %v jumped to %d over %v, present ever since it was opened; set now %v",
			ch.what, it.id, it.trace, k, missed, set)
		return true
	}
	it.started, it.last = true, k
	it.onDeleted, it.reinserted = false, false
	it.mustSee = it.mustSee.between(k+1, 64)
	return false
}

func (ch *c07checker) iterAdvance(it *c07iter, key int, set c07set) (ended bool) {
	c := ch.c
	suffix := ""
	if it.onDeleted {
		suffix = ":after-delete-of-current"
		c.Count("iter_advance_after_delete_of_current")
		if set == 0 {
			c.Count("iter_advance_current_deleted_tree_empty")
		}
	}
	if !it.started {
		c.Count("iter_advance_first_call")
	} else if key <= it.last {
		c.Count("iter_advance_le_current")
	}
	ok := it.it.Advance(key)
	lo := key
	if it.started && it.last+1 > lo {
		lo = it.last + 1
	}
	w := func() map[string]any {
		return ch.witness(map[string]any{"iterator": it.id, "iterator_calls": it.trace, "set_now": set.String(), "must_see": it.mustSee.String()})
	}
	if !ok {
		it.trace = append(it.trace, fmt.Sprintf("Advance(%d)=false", key))
		// staying on the current value is a legitimate answer when key <= current and it is still there;
		// reporting the end is only right if nothing at or above max(key, current) must be seen
		missed := it.mustSee.between(lo, 64)
		if it.started && key <= it.last && set.has(it.last) {
			missed.add(it.last)
		}
		if missed != 0 {
			c.Violate("iterator:Advance:exhausted-early"+suffix, w(), "%s: iterator %d %v reported the end, but %v are present (ever since it was opened) at or above the key and its position; set now %v",
				ch.what, it.id, it.trace, missed, set)
		}
		return true
	}
	k, isKey := c07keyOf(it.it.Value())
	it.trace = append(it.trace, fmt.Sprintf("Advance(%d)=%d", key, k))
	switch {
	case !isKey:
		c.Violate("iterator:Advance:foreign-value"+suffix, w(), "%s: iterator %d returned %v", ch.what, it.id, it.it.Value())
		return true
	case k < key:
		c.Violate("iterator:Advance:below-key"+suffix, w(), "%s: iterator %d %v: Advance(%d) landed on %d; set now %v", ch.what, it.id, it.trace, key, k, set)
		return true
	case it.started && k < it.last:
		c.Violate("iterator:Advance:backwards"+suffix, w(), "%s: iterator %d %v went back from %d to %d; set now %v", ch.what, it.id, it.trace, it.last, k, set)
		return true
	case !set.has(k):
		kind := "value-not-in-set"
		if it.deleted.has(k) {
			kind = "returned-deleted-value"
		}
		c.Violate("iterator:Advance:"+kind+suffix, w(), "%s: iterator %d %v returned %d, which is not in the set now %v", ch.what, it.id, it.trace, k, set)
		return true
	}
	if missed := it.mustSee.between(lo, k); missed != 0 {
		c.Violate("iterator:Advance:skipped-value-present-throughout"+suffix, w(), "%s: iterator %d %v: Advance(%d) landed on %d over %v, present ever since it was opened; set now %v",
			ch.what, it.id, it.trace, key, k, missed, set)
		return true
	}
	if !it.started || k != it.last {
		it.onDeleted, it.reinserted = false, false
	} else if it.onDeleted {
		// stayed on its value although that node was deleted: only legitimate if the key was inserted again,
		// and then the iterator now stands on the new node
		it.onDeleted, it.reinserted = false, false
	}
	it.started, it.last = true, k
	it.mustSee = it.mustSee.between(k+1, 64)
	return false
}

func c07noteDelete(its []*c07iter, k int) {
	for _, it := range its {
		it.mustSee.del(k)
		it.deleted.add(k)
		if it.started && it.last == k {
			it.onDeleted = true
			it.reinserted = false
		}
	}
}

func c07noteInsert(its []*c07iter, k int) {
	for _, it := range its {
		if it.onDeleted && it.last == k {
			it.reinserted = true
		}
	}
}

func init() {
	core.Register(&core.Monitor{
		ID:        "C07",
		Title:     "AVL tree index stays a balanced sorted set across any edit history",
		Technique: "invariant walk through an export hook after every edit + reference set + per-iterator must-see bookkeeping",
		Rule: "case = edit history (<= 200 operations: bulk fill in ascending/descending/zigzag/random order, insert, re-insert, delete of present and absent keys, up to 3 open iterators doing Next/Advance, Lookup) " +
			"over keys 0..63 on the AVL treeList (hook) or on a TreeIndex with 1-4 tokens (Add/Remove with token subsets); distinct = distinct history; " +
			"non-trivial = at least one delete of a present key from a tree of >= 3 nodes",
		Assumptions: []string{
			"values compare by key; which of two equal-key values is kept on re-insertion is not checked",
			"an iterator need not see values inserted after it was opened",
			"after an iterator returned false nothing more is demanded of it",
		},
		Quick: 12000, Thorough: 3000000,
		Required: []string{"delete_leaf", "delete_one_child", "delete_two_children", "delete_two_children_succ_is_right_child", "delete_two_children_succ_deeper",
			"delete_root", "delete_absent", "delete_absent_from_empty", "insert_existing", "insert_into_empty", "insert_with_rotation", "delete_with_rotation",
			"iter_next_after_delete_of_current", "iter_advance_after_delete_of_current", "iter_next_current_deleted_and_reinserted", "iter_next_current_deleted_tree_empty",
			"iter_open_during_insert", "iter_open_during_delete", "iter_advance_le_current", "iter_advance_first_call",
			"index_histories", "index_add_multi_token", "index_remove_absent_value", "index_remove_unknown_token", "index_iter_next_after_delete_of_current", "list_histories"},
		Setup: func(tier string) {
			// the iterator-repair path recursed without bound on the pinned tree; fail fast instead of growing a 1 GB stack
			debug.SetMaxStack(64 << 20)
		},
		Run: func(c *core.Ctx) {
			if c.R.Chance(0.3) {
				c07runIndex(c)
			} else {
				c07runList(c)
			}
		},
	})
}

// c07runList: histories on the treeList itself.
func c07runList(c *core.Ctx) {
	r := c.R
	c.Count("list_histories")
	var script []string
	ch := &c07checker{c: c, script: &script, what: "treeList"}
	tl := search.VerifNewTreeList(c07values{})
	var set c07set
	var its []*c07iter
	gen := 0
	iterIDs := 0
	lenDelta := 0 // Len() - reference size as last observed
	nontrivial := false
	var recentlyDeleted []int

	shape := ch.validate(tl.Walk(1000), set, "new")

	insert := func(k int) {
		gen++
		opclass := "insert-new"
		if set.has(k) {
			opclass = "insert-existing"
			c.Count("insert_existing")
		} else if set == 0 {
			opclass = "insert-into-empty"
			c.Count("insert_into_empty")
		}
		script = append(script, fmt.Sprintf("Insert(%d)", k))
		tl.Insert(c07val{k, gen})
		set.add(k)
		c07noteInsert(its, k)
		if len(its) > 0 {
			c.Count("iter_open_during_insert")
		}
		ns := ch.validate(tl.Walk(1000), set, opclass)
		if ch.broken {
			return
		}
		if opclass == "insert-new" && c07changedNodes(shape, ns) > 1 {
			c.Count("insert_with_rotation")
		}
		shape = ns
		if d := tl.Len() - set.size(); d != lenDelta {
			c.Violate("Len:wrong-after:"+opclass, ch.witness(map[string]any{"len": tl.Len(), "reference_size": set.size()}),
				"treeList.Len() is %d after %s with %d values in the tree (was off by %d before this operation)", tl.Len(), opclass, set.size(), lenDelta)
			lenDelta = d
		}
	}
	del := func(k int, byKey bool) {
		opclass := "delete-absent"
		if set.has(k) {
			chd := shape.children[k]
			switch {
			case chd[0] < 0 && chd[1] < 0:
				opclass = "delete-leaf"
				c.Count("delete_leaf")
			case chd[0] < 0 || chd[1] < 0:
				opclass = "delete-one-child"
				c.Count("delete_one_child")
			default:
				opclass = "delete-two-children"
				c.Count("delete_two_children")
				if shape.children[chd[1]][0] < 0 {
					c.Count("delete_two_children_succ_is_right_child")
				} else {
					c.Count("delete_two_children_succ_deeper")
				}
			}
			if shape.rootKey == k {
				c.Count("delete_root")
			}
			if set.size() >= 3 {
				nontrivial = true
			}
			recentlyDeleted = append(recentlyDeleted, k)
		} else {
			c.Count("delete_absent")
			if set == 0 {
				c.Count("delete_absent_from_empty")
			}
		}
		if byKey {
			script = append(script, fmt.Sprintf("DeleteKey(%d)", k))
			tl.DeleteKey(k)
		} else {
			script = append(script, fmt.Sprintf("Delete(%d)", k))
			tl.Delete(c07val{k, -1})
		}
		wasPresent := set.has(k)
		set.del(k)
		if wasPresent {
			c07noteDelete(its, k)
			if len(its) > 0 {
				c.Count("iter_open_during_delete")
			}
		}
		ns := ch.validate(tl.Walk(1000), set, opclass)
		if ch.broken {
			return
		}
		if wasPresent {
			limit := 1
			if opclass == "delete-two-children" {
				limit = 3
			}
			if c07changedNodes(shape, ns) > limit {
				c.Count("delete_with_rotation")
			}
		}
		shape = ns
		if d := tl.Len() - set.size(); d != lenDelta {
			c.Violate("Len:wrong-after:"+opclass, ch.witness(map[string]any{"len": tl.Len(), "reference_size": set.size()}),
				"treeList.Len() is %d after %s with %d values in the tree (was off by %d before this operation)", tl.Len(), opclass, set.size(), lenDelta)
			lenDelta = d
		}
	}
	open := func() {
		iterIDs++
		it := &c07iter{id: iterIDs, it: tl.Begin(), mustSee: set}
		its = append(its, it)
		script = append(script, fmt.Sprintf("it%d=Begin()", it.id))
	}
	closeIter := func(i int) {
		script = append(script, fmt.Sprintf("it%d dropped", its[i].id))
		its = append(its[:i:i], its[i+1:]...)
	}

	// bulk fill
	if n0 := r.Intn(5); n0 > 0 {
		n := r.Range(1, 64)
		keys := r.Perm(64)[:n]
		switch r.Intn(4) {
		case 0:
			sort.Ints(keys)
		case 1:
			sort.Sort(sort.Reverse(sort.IntSlice(keys)))
		case 2: // zigzag: smallest, largest, second smallest, ...
			sort.Ints(keys)
			z := make([]int, 0, n)
			for i, j := 0, n-1; i <= j; i, j = i+1, j-1 {
				z = append(z, keys[i])
				if i != j {
					z = append(z, keys[j])
				}
			}
			keys = z
		}
		for _, k := range keys {
			insert(k)
			if ch.broken {
				break
			}
		}
	}
	pIns := core.Pick(r, []float64{0.12, 0.25, 0.4})
	pDel := core.Pick(r, []float64{0.12, 0.25, 0.4})
	nops := r.Range(1, 140)
	for op := 0; op < nops && !ch.broken && c.Violations() < 4; op++ {
		x := r.Float()
		switch {
		case x < pIns:
			k := r.Intn(64)
			if len(recentlyDeleted) > 0 && r.Chance(0.35) {
				k = core.Pick(r, recentlyDeleted)
			}
			insert(k)
		case x < pIns+pDel:
			k := -1
			if len(its) > 0 && r.Chance(0.45) { // the value an iterator stands on
				it := core.Pick(r, its)
				if it.started && set.has(it.last) {
					k = it.last
				}
			}
			if k < 0 && set != 0 {
				k = core.Pick(r, set.keys())
			}
			if k < 0 {
				k = r.Intn(64)
			}
			del(k, r.Bool())
		case x < pIns+pDel+0.05:
			del(r.Intn(64), r.Bool()) // often absent
		case x < pIns+pDel+0.12:
			if len(its) < 3 {
				open()
			}
		case x < pIns+pDel+0.14:
			if len(its) > 0 {
				closeIter(r.Intn(len(its)))
			}
		case x < pIns+pDel+0.17:
			k := r.Intn(64)
			v, ok := tl.Lookup(k)
			script = append(script, fmt.Sprintf("Lookup(%d)", k))
			if ok != set.has(k) {
				c.Violate("Lookup:wrong-presence", ch.witness(nil), "Lookup(%d) reported %v, reference set %v", k, ok, set)
			} else if ok {
				if kk, _ := c07keyOf(v); kk != k {
					c.Violate("Lookup:wrong-value", ch.witness(nil), "Lookup(%d) returned %v", k, v)
				}
			}
		default:
			if len(its) == 0 {
				if r.Chance(0.5) {
					open()
				}
				continue
			}
			i := r.Intn(len(its))
			it := its[i]
			ended := false
			if r.Chance(0.6) {
				script = append(script, fmt.Sprintf("it%d.Next", it.id))
				ended = ch.iterNext(it, set)
			} else {
				k := r.Intn(64)
				if it.started && r.Chance(0.5) {
					k = it.last + r.Range(-2, 6)
					if k < 0 {
						k = 0
					}
					if k > 63 {
						k = 63
					}
				}
				script = append(script, fmt.Sprintf("it%d.Advance(%d)", it.id, k))
				ended = ch.iterAdvance(it, k, set)
			}
			script[len(script)-1] = fmt.Sprintf("it%d.%s", it.id, it.trace[len(it.trace)-1])
			if ended {
				its = append(its[:i:i], its[i+1:]...)
			}
		}
	}
	if nontrivial {
		c.Nontrivial()
	}
	c.Key("list|%s", strings.Join(script, ";"))
	if c.Index < 3 {
		s := script
		if len(s) > 40 {
			s = s[:40]
		}
		c.Sample(map[string]any{"kind": "treeList", "history_prefix": s, "operations": len(script)})
	}
}

// c07runIndex: the same through TreeIndex.Add/Remove with 1-4 tokens.
func c07runIndex(c *core.Ctx) {
	r := c.R
	c.Count("index_histories")
	var script []string
	tokens := []string{"a", "b", "c", "d"}[:r.Range(1, 4)]
	idx := search.NewTreeIndex(c06intValues{})
	sets := map[string]*c07set{}
	lenDelta := map[string]int{}
	everAdded := map[string]bool{}
	type openIter struct {
		*c07iter
		token string
	}
	var its []*openIter
	iterIDs := 0
	nontrivial := false
	broken := false
	shapes := map[string]*c07shape{}
	numTokensDelta := 0

	itersOf := func(tok string) []*c07iter {
		var out []*c07iter
		for _, it := range its {
			if it.token == tok {
				out = append(out, it.c07iter)
			}
		}
		return out
	}
	checkToken := func(tok string, opclass string) {
		ch := &c07checker{c: c, script: &script, what: "TreeIndex token " + tok}
		w, ok := idx.VerifWalkToken(tok, 1000)
		if !ok {
			if everAdded[tok] {
				c.Violate(opclass+":token-list-missing", ch.witness(nil), "the posting tree of token %q is gone after %s", tok, opclass)
				broken = true
			}
			return
		}
		if !everAdded[tok] {
			c.Violate(opclass+":token-list-invented", ch.witness(nil), "token %q has a posting tree although nothing was ever added to it", tok)
			broken = true
			return
		}
		sh := ch.validate(w, *sets[tok], "index-"+opclass)
		if ch.broken {
			broken = true
			return
		}
		shapes[tok] = sh
		if d := w.Len - sets[tok].size(); d != lenDelta[tok] {
			// the per-token list length is not observable through the TreeIndex API (only EstimateLength uses it): count, do not judge
			c.Count("index_token_len_field_drift")
			lenDelta[tok] = d
		}
	}
	checkTokens := func(opclass string) {
		ch := &c07checker{c: c, script: &script, what: "TreeIndex token tree"}
		w := idx.VerifWalkTokens(100)
		if w.Truncated {
			c.Violate(opclass+":token-tree:walk-does-not-end", ch.witness(nil), "the token tree has a cycle")
			broken = true
			return
		}
		var got []string
		for _, n := range w.Nodes {
			got = append(got, n.Value.(string))
			if d := n.RightH - n.LeftH; d > 1 || d < -1 || n.Balance != d || !n.ParentOK || n.Deleted {
				c.Violate(opclass+":token-tree:invariant", ch.witness(map[string]any{"node": n.Value}), "token tree node %v: balance %d, heights %d/%d, parentOK %v, deleted mark %v", n.Value, n.Balance, n.LeftH, n.RightH, n.ParentOK, n.Deleted)
				broken = true
				return
			}
		}
		// The property does not say whether a token whose list became empty stays listed: accept any
		// strictly increasing list that contains every token with a non-empty set and no token that
		// was never added. NumTokens() must agree with what Tokens() lists.
		acceptable := func(list []string) string {
			for i, t := range list {
				if i > 0 && list[i-1] >= t {
					return fmt.Sprintf("not strictly increasing at %q", t)
				}
				if !everAdded[t] {
					return fmt.Sprintf("lists %q, which was never added", t)
				}
			}
			for t, s := range sets {
				if *s != 0 {
					found := false
					for _, l := range list {
						if l == t {
							found = true
						}
					}
					if !found {
						return fmt.Sprintf("lacks %q, which holds %v", t, *s)
					}
				}
			}
			return ""
		}
		if why := acceptable(got); why != "" {
			c.Violate(opclass+":token-tree:content", ch.witness(nil), "the token tree holds %v: %s", got, why)
			broken = true
			return
		}
		// Tokens() / NumTokens() at the API
		var listed []string
		ti := idx.Tokens()
		for ti.Next() {
			listed = append(listed, ti.Token())
			if len(listed) > 10 {
				break
			}
		}
		if why := acceptable(listed); why != "" {
			c.Violate(opclass+":Tokens:content", ch.witness(nil), "Tokens() lists %v: %s", listed, why)
		}
		if d := idx.NumTokens() - len(listed); d != numTokensDelta {
			c.Violate("NumTokens:wrong-after:"+opclass, ch.witness(map[string]any{"num_tokens": idx.NumTokens(), "tokens_listed": listed}),
				"TreeIndex.NumTokens() is %d while Tokens() lists %v (was off by %d before this operation)", idx.NumTokens(), listed, numTokensDelta)
			numTokensDelta = d
		}
	}
	pick := func() []string {
		n := r.Range(1, len(tokens))
		var out []string
		for _, i := range r.Perm(len(tokens))[:n] {
			out = append(out, tokens[i])
		}
		return out
	}

	pAdd := core.Pick(r, []float64{0.2, 0.35, 0.5})
	pRem := core.Pick(r, []float64{0.15, 0.3})
	nops := r.Range(1, 200)
	var recentlyRemoved []int
	for op := 0; op < nops && !broken && c.Violations() < 4; op++ {
		x := r.Float()
		switch {
		case x < pAdd:
			k := r.Intn(64)
			if len(recentlyRemoved) > 0 && r.Chance(0.3) {
				k = core.Pick(r, recentlyRemoved)
			}
			toks := pick()
			if len(toks) > 1 {
				c.Count("index_add_multi_token")
			}
			script = append(script, fmt.Sprintf("Add(%d,%v)", k, toks))
			newToken := false
			noTokenBefore := len(everAdded) == 0
			for _, t := range toks {
				if !everAdded[t] {
					newToken = true
				}
			}
			idx.Add(k, toks)
			for _, t := range toks {
				if !everAdded[t] {
					everAdded[t] = true
					sets[t] = new(c07set)
				}
				sets[t].add(k)
				c07noteInsert(itersOf(t), k)
				if len(itersOf(t)) > 0 {
					c.Count("iter_open_during_insert")
				}
			}
			for _, t := range toks {
				checkToken(t, "Add")
			}
			oc := "Add"
			if newToken {
				oc = "Add-new-token"
				if noTokenBefore {
					oc = "Add-first-token"
				}
			}
			checkTokens(oc)
		case x < pAdd+pRem:
			k := r.Intn(64)
			toks := pick()
			if r.Chance(0.6) { // prefer a present value, often the one an iterator stands on
				t := toks[0]
				if s := sets[t]; s != nil && *s != 0 {
					k = core.Pick(r, s.keys())
					for _, it := range its {
						if it.token == t && it.started && s.has(it.last) && r.Chance(0.6) {
							k = it.last
						}
					}
				}
			}
			if r.Chance(0.1) {
				toks = append(toks, "zz-never-added")
				c.Count("index_remove_unknown_token")
			}
			script = append(script, fmt.Sprintf("Remove(%d,%v)", k, toks))
			present := false
			for _, t := range toks {
				if s := sets[t]; s != nil && s.has(k) {
					present = true
					if s.size() >= 3 {
						nontrivial = true
					}
					chd := shapes[t].children[k]
					switch {
					case chd[0] < 0 && chd[1] < 0:
						c.Count("delete_leaf")
					case chd[0] < 0 || chd[1] < 0:
						c.Count("delete_one_child")
					default:
						c.Count("delete_two_children")
					}
				} else {
					c.Count("index_remove_absent_value")
				}
			}
			if present {
				recentlyRemoved = append(recentlyRemoved, k)
			}
			idx.Remove(k, toks)
			for _, t := range toks {
				if s := sets[t]; s != nil && s.has(k) {
					s.del(k)
					c07noteDelete(itersOf(t), k)
					if len(itersOf(t)) > 0 {
						c.Count("iter_open_during_delete")
					}
				}
			}
			for _, t := range toks {
				if t != "zz-never-added" {
					checkToken(t, "Remove")
				}
			}
			checkTokens("Remove")
		case x < pAdd+pRem+0.1:
			if len(its) < 3 {
				tok := core.Pick(r, tokens)
				iterIDs++
				script = append(script, fmt.Sprintf("it%d=Begin(%q)", iterIDs, tok))
				real := idx.Begin(tok)
				var ms c07set
				if s := sets[tok]; s != nil {
					ms = *s
				}
				if !everAdded[tok] {
					// an iterator over a token that does not exist is the empty iterator; it is not connected to later additions
					if real.Next() {
						c.Violate("Begin:absent-token-not-empty", map[string]any{"history": script}, "Begin(%q) on a token never added returned a value", tok)
					}
					continue
				}
				its = append(its, &openIter{&c07iter{id: iterIDs, it: real, mustSee: ms}, tok})
			}
		default:
			if len(its) == 0 {
				continue
			}
			i := r.Intn(len(its))
			it := its[i]
			ch := &c07checker{c: c, script: &script, what: "TreeIndex token " + it.token}
			set := *sets[it.token]
			ended := false
			if it.onDeleted {
				c.Count("index_iter_next_after_delete_of_current")
			}
			if r.Chance(0.65) {
				ended = ch.iterNext(it.c07iter, set)
			} else {
				k := r.Intn(64)
				if it.started && r.Chance(0.5) {
					k = it.last + r.Range(-2, 6)
					if k < 0 {
						k = 0
					}
					if k > 63 {
						k = 63
					}
				}
				ended = ch.iterAdvance(it.c07iter, k, set)
			}
			script = append(script, fmt.Sprintf("it%d.%s", it.id, it.trace[len(it.trace)-1]))
			if ended {
				its = append(its[:i:i], its[i+1:]...)
			}
		}
	}
	if nontrivial {
		c.Nontrivial()
	}
	c.Key("index|%d|%s", len(tokens), strings.Join(script, ";"))
	if c.Index < 3 {
		s := script
		if len(s) > 40 {
			s = s[:40]
		}
		c.Sample(map[string]any{"kind": "TreeIndex", "tokens": tokens, "history_prefix": s, "operations": len(script)})
	}
}
