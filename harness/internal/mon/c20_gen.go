package mon

import (
	"fmt"
	"math"
	"strconv"
	"strings"

	"diagonal.works/b6"
	"github.com/golang/geo/s2"
	"verif/internal/core"
)

// Generator of expressions in the shell's printable subset (C20), in the normal
// form the parser itself produces:
//
//   pipeline := call | Pipeline(pipeline, call)        Pipeline(l, r) = Call{Function: r, Args: [l], Pipelined}
//   call     := Call{symbol, []} | Call{symbol, args} | expression
//   arg      := symbol | expression
//   expression := lat,lng | tag | lambda | (pipeline) | [query] | string | float | int | feature id
//   lambda   := {a, b -> pipeline} | {-> pipeline}
//   query    := key | key=value | L & query | L | query     (L composite = bracketed)
//
// Input classes with a recorded or suspected weakness are only produced inside
// their own labelled sub-case (sub != ""), so the main list stays clean.

type c20gen struct {
	r     *core.R
	sub   string
	kinds map[string]int
	colon bool // symbols and keys may contain ':' (not when the monitor's own collection printer is used)
}

func (g *c20gen) note(k string) { g.kinds[k]++ }

var c20symbols = []string{"find", "x", "y", "f", "all-tags", "to-str", "a_b", "A1", "Zz-9", "within-cap", "count", "get", "pair", "collection", "gt", "map", "ll"}
var c20keys = []string{"#amenity", "#highway", "@name", "name", "building", "#a-b", "@x_1", "#", "maxspeed", "#B2"}
var c20colonKeys = []string{"addr:street", "#addr:housenumber", "b6:colour"}
var c20safeRunes = []rune("abcdefghijklmnopqrstuvwxyzABCDEFGHIJKLMNOPQRSTUVWXYZ0123456789 !#$%&'()*+,-./:;<=>?@[]^_`{|}~éüßñ日本語😀")
var c20hostileRunes = []rune{'"', '\\', '\n', '\t', '\r', 0, 0x7f, 0xa0, 0x2028, 0xfffd, 'a', ' ', 'n', '\''}
var c20ints = []int{0, 1, -1, 7, 42, -42, 100, 1 << 31, -(1 << 31), 1<<32 + 1, math.MaxInt64, math.MinInt64, 1234567890123}

func (g *c20gen) symbol() string {
	if g.colon && g.r.Chance(0.1) {
		return "b6:fn"
	}
	return core.Pick(g.r, c20symbols)
}

func (g *c20gen) key() string {
	if g.sub == "tag-key-odd" {
		return core.Pick(g.r, []string{"1abc", "a b", "", "-x", "_k", "a=b", "é", "#a b"})
	}
	if g.colon && g.r.Chance(0.2) {
		return core.Pick(g.r, c20colonKeys)
	}
	return core.Pick(g.r, c20keys)
}

func (g *c20gen) safeString() string {
	if g.sub == "string-escapes" && g.r.Chance(0.8) {
		n := g.r.Range(1, 6)
		rs := make([]rune, n)
		for i := range rs {
			rs[i] = core.Pick(g.r, c20hostileRunes)
		}
		s := string(rs)
		if g.r.Chance(0.1) {
			s += "\xff" // not UTF-8
		}
		g.note("hostile_string")
		return s
	}
	switch g.r.Intn(5) {
	case 0:
		return core.Pick(g.r, []string{"", "a", "cafe", "Granary Square", "a,b", "(x)", "{y}", "[z]", "k=v", "a|b", "#tag", "/n/1", "-> x", "1", "1.50", "51.5, -0.1"})
	default:
		n := g.r.ExpInt(12)
		rs := make([]rune, n)
		for i := range rs {
			rs[i] = core.Pick(g.r, c20safeRunes)
		}
		return string(rs)
	}
}

// tagValue: a value UnparseTag can print so that it reads back: either
// symbol-like starting with a letter, or anything else (then it is quoted).
func (g *c20gen) tagValue() string {
	if g.sub == "tag-value-leading-nonletter" {
		// symbol runes only, but the first is not a letter
		return core.Pick(g.r, []string{"30", "1a", "-x", "_y", ":z", "2024-01-01", "0"})
	}
	if g.sub == "tag-empty-value" {
		return ""
	}
	switch g.r.Intn(4) {
	case 0:
		return core.Pick(g.r, []string{"yes", "cafe", "primary", "a-b", "x_1", "Z9"})
	case 1:
		if g.colon {
			return "a:b"
		}
		return "ab"
	default:
		for {
			s := g.safeString()
			if s == "" {
				continue
			}
			// a leading letter followed by something that forces quoting, or a
			// leading non-letter: only the first is in the main list
			if c := s[0]; !((c >= 'a' && c <= 'z') || (c >= 'A' && c <= 'Z')) {
				s = "v" + s
			}
			if !g.colon {
				// a value printed without quotes must not carry the ':' the
				// monitor's collection printer uses as a separator
				s = strings.ReplaceAll(s, ":", "_")
			}
			return s
		}
	}
}

func c20fixed(intPart int64, frac int, digits int) float64 {
	sign := ""
	if intPart < 0 {
		sign, intPart = "-", -intPart
	}
	f, _ := strconv.ParseFloat(fmt.Sprintf("%s%d.%0*d", sign, intPart, digits, frac), 64)
	return f
}

func (g *c20gen) float() float64 {
	if g.sub == "float-arbitrary" {
		switch g.r.Intn(6) {
		case 0:
			g.note("float_nonfinite")
			return core.Pick(g.r, []float64{math.NaN(), math.Inf(1), math.Inf(-1)})
		case 1:
			return math.Float64frombits(g.r.U64())
		default:
			return (g.r.Float() - 0.5) * math.Pow(10, float64(g.r.Range(-6, 9)))
		}
	}
	ip := int64(g.r.Range(-1000, 1000))
	switch g.r.Intn(6) {
	case 0:
		ip = core.Pick(g.r, []int64{0, 1 << 40, -(1 << 40), 999999999999, 123456789})
	case 1:
		ip = 0
	}
	return c20fixed(ip, g.r.Intn(100), 2)
}

func (g *c20gen) point() b6.Expression {
	if g.sub == "point-arbitrary" {
		return b6.NewPointExpressionFromLatLng(s2.LatLngFromDegrees((g.r.Float()-0.5)*180, (g.r.Float()-0.5)*360))
	}
	lat := c20fixed(int64(g.r.Range(-89, 89)), g.r.Intn(1000000), 6)
	lng := c20fixed(int64(g.r.Range(-179, 179)), g.r.Intn(1000000), 6)
	if g.r.Chance(0.1) {
		lat, lng = core.Pick(g.r, []float64{0, 90, -90, 51.5}), core.Pick(g.r, []float64{0, 180, -180, -0.1})
	}
	return b6.NewPointExpressionFromLatLng(s2.LatLngFromDegrees(lat, lng))
}

var c20namespaces = []b6.Namespace{b6.NamespaceOSMNode, b6.NamespaceOSMWay, b6.NamespaceOSMRelation, b6.NamespaceLatLng, b6.NamespaceGBUPRN, "example.com/a", "example.com/a/b/c", "x", "test", "a-b.c_d/e"}

func (g *c20gen) featureID() b6.FeatureID {
	switch g.r.Intn(10) {
	case 0:
		g.note("id_alias_ons")
		return b6.FeatureIDFromUKONSCode(core.Pick(g.r, []string{"E01000953", "W06000015", "S12000036", "E00000001"}), core.Pick(g.r, []int{2011, 2021, 1999}), b6.FeatureTypeArea)
	case 1:
		g.note("id_alias_codepoint")
		return b6.PointIDFromGBPostcode(core.Pick(g.r, []string{"N1C4AG", "SW1A1AA", "M11AE", "EH991SP"}))
	}
	t := core.Pick(g.r, []b6.FeatureType{b6.FeatureTypePoint, b6.FeatureTypePath, b6.FeatureTypeArea, b6.FeatureTypeRelation, b6.FeatureTypeCollection, b6.FeatureTypeExpression})
	ns := core.Pick(g.r, c20namespaces)
	v := core.Pick(g.r, []uint64{0, 1, 42, 3501612811, 1<<32 + 1, 1<<63 + 1, math.MaxUint64})
	if g.r.Bool() {
		v = g.r.U64() >> uint(g.r.Intn(64))
	}
	if g.r.Chance(0.4) { // the OSM aliases /n/ /w/ /a/ /r/ and /gb/uprn/
		switch g.r.Intn(5) {
		case 0:
			t, ns = b6.FeatureTypePoint, b6.NamespaceOSMNode
		case 1:
			t, ns = b6.FeatureTypePath, b6.NamespaceOSMWay
		case 2:
			t, ns = b6.FeatureTypeArea, b6.NamespaceOSMWay
		case 3:
			t, ns = b6.FeatureTypeRelation, b6.NamespaceOSMRelation
		case 4:
			t, ns = b6.FeatureTypePoint, b6.NamespaceGBUPRN
		}
		g.note("id_alias_osm")
	} else {
		g.note("id_full")
	}
	return b6.FeatureID{Type: t, Namespace: ns, Value: v}
}

func (g *c20gen) tag() b6.Expression {
	g.note("tag")
	return b6.Expression{AnyExpression: b6.TagExpression{Key: g.key(), Value: b6.NewStringExpression(g.tagValue())}}
}

func (g *c20gen) queryTag() b6.Query {
	if g.r.Bool() {
		g.note("query_keyed")
		return b6.Keyed{Key: g.key()}
	}
	g.note("query_tagged")
	return b6.Tagged{Key: g.key(), Value: b6.NewStringExpression(g.tagValue())}
}

func (g *c20gen) query(depth int) b6.Query {
	if depth <= 0 || g.r.Chance(0.4) {
		return g.queryTag()
	}
	if g.sub == "query-nary" && g.r.Bool() {
		n := g.r.Range(3, 4)
		qs := make([]b6.Query, n)
		for i := range qs {
			qs[i] = g.queryTag()
		}
		g.note("query_nary")
		if g.r.Bool() {
			return b6.Intersection(qs)
		}
		return b6.Union(qs)
	}
	var left b6.Query
	if g.r.Chance(0.3) {
		left = g.query(depth - 1)
		switch left.(type) {
		case b6.Intersection, b6.Union:
			g.note("query_composite_left")
		}
	} else {
		left = g.queryTag()
	}
	right := g.query(depth - 1)
	if g.r.Bool() {
		g.note("query_and")
		return b6.Intersection{left, right}
	}
	g.note("query_or")
	return b6.Union{left, right}
}

func (g *c20gen) literal() b6.Expression {
	switch g.r.Intn(7) {
	case 0:
		g.note("string")
		return b6.NewStringExpression(g.safeString())
	case 1:
		g.note("int")
		return b6.NewIntExpression(core.Pick(g.r, c20ints) >> uint(g.r.Intn(3)*7))
	case 2:
		g.note("float")
		return b6.NewFloatExpression(g.float())
	case 3:
		g.note("feature_id")
		return b6.NewFeatureIDExpression(g.featureID())
	case 4:
		g.note("latlng")
		return g.point()
	case 5:
		return g.tag()
	default:
		g.note("query")
		return b6.NewQueryExpression(g.query(2))
	}
}

func c20pipeline(left, right b6.Expression) b6.Expression {
	return b6.Expression{AnyExpression: b6.CallExpression{Function: right, Args: []b6.Expression{left}, Pipelined: true}}
}

// expression: what the grammar calls expression (a group stands for the
// pipeline it brackets).
func (g *c20gen) expression(depth int) b6.Expression {
	if depth > 0 {
		switch g.r.Intn(6) {
		case 0:
			return g.lambda(depth - 1)
		case 1, 2:
			g.note("group")
			return g.pipeline(depth - 1)
		}
	}
	return g.literal()
}

func (g *c20gen) lambda(depth int) b6.Expression {
	n := g.r.Intn(3)
	args := make([]string, 0, n)
	for _, i := range g.r.Perm(len(c20symbols))[:n] {
		args = append(args, c20symbols[i])
	}
	if n == 0 {
		g.note("lambda_no_args")
	}
	g.note("lambda")
	return b6.Expression{AnyExpression: b6.LambdaExpression{Args: args, Expression: g.pipeline(depth)}}
}

func (g *c20gen) arg(depth int) b6.Expression {
	if g.r.Chance(0.3) {
		g.note("symbol_arg")
		return b6.NewSymbolExpression(g.symbol())
	}
	return g.expression(depth)
}

func (g *c20gen) call(depth int) b6.Expression {
	switch k := g.r.Intn(10); {
	case k < 2:
		g.note("call_no_args")
		return b6.Expression{AnyExpression: b6.CallExpression{Function: b6.NewSymbolExpression(g.symbol()), Args: []b6.Expression{}}}
	case k < 7:
		g.note("call_with_args")
		n := g.r.Range(1, 3)
		args := make([]b6.Expression, n)
		for i := range args {
			args[i] = g.arg(depth - 1)
		}
		fn := b6.NewSymbolExpression(g.symbol())
		if g.sub == "non-symbol-function" && g.r.Bool() {
			g.note("non_symbol_function")
			if g.r.Bool() {
				fn = g.lambda(0)
			} else {
				fn = b6.Expression{AnyExpression: b6.CallExpression{Function: b6.NewSymbolExpression(g.symbol()), Args: []b6.Expression{g.literal()}}}
			}
		}
		return b6.Expression{AnyExpression: b6.CallExpression{Function: fn, Args: args}}
	default:
		return g.expression(depth)
	}
}

func (g *c20gen) pipeline(depth int) b6.Expression {
	if depth > 0 && g.r.Chance(0.35) {
		left := g.call(depth - 1)
		for i, n := 0, g.r.Range(1, 3); i < n; i++ {
			right := g.call(depth - 1)
			if c, ok := right.AnyExpression.(b6.CallExpression); ok && c.Pipelined {
				g.note("pipeline_rhs_is_pipeline")
			}
			left = c20pipeline(left, right)
			g.note("pipeline_stage")
		}
		return left
	}
	return g.call(depth)
}

// collectionCall: the call a collection literal {k: v, ...} stands for.
// implicit: keys are 0..n-1 and are not written.
func (g *c20gen) collectionCall(implicit bool) b6.Expression {
	n := g.r.Range(1, 4)
	pairs := make([]b6.Expression, n)
	item := func(key bool) b6.Expression {
		for {
			var e b6.Expression
			switch g.r.Intn(6) {
			case 0:
				e = b6.NewStringExpression(g.safeString())
			case 1:
				e = b6.NewIntExpression(core.Pick(g.r, c20ints))
			case 2:
				e = b6.NewFeatureIDExpression(g.featureID())
			case 3:
				e = g.tag()
			case 4:
				if key {
					continue
				}
				e = b6.NewFloatExpression(g.float())
			default:
				// a group: any bracketed pipeline
				e = g.pipeline(1)
			}
			return e
		}
	}
	for i := range pairs {
		k := item(true)
		if implicit {
			k = b6.NewIntExpression(i)
		}
		pairs[i] = b6.Expression{AnyExpression: b6.CallExpression{Function: b6.NewSymbolExpression("pair"), Args: []b6.Expression{k, item(false)}}}
	}
	return b6.Expression{AnyExpression: b6.CallExpression{Function: b6.NewSymbolExpression("collection"), Args: pairs}}
}
