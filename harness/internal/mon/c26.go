package mon

import (
	"context"
	"fmt"
	"sort"
	"strings"
	"sync"

	"diagonal.works/b6"
	"diagonal.works/b6/api"
	"diagonal.works/b6/api/functions"
	b6grpc "diagonal.works/b6/grpc"
	"diagonal.works/b6/ingest"
	pb "diagonal.works/b6/proto"
	"verif/internal/core"
)

// C26 Callers are told whether their change was applied.
//
// Oracle: a differential twin. Two identical worlds are built per case. The
// request is evaluated by the code under test (grpc service.Evaluate, or
// api.Evaluator.EvaluateExpression / EvaluateProto) against world A. For the
// twin, the same expression is evaluated with api.Evaluate to obtain the change
// value, which is then applied directly (change.Apply) to world B: that gives
// (failed?, modified IDs, world afterwards) without going through either
// reporting path. In addition the set of IDs a successful change modifies is
// known by construction and checked independently of Apply's return value.

// c26basicWorlds serves one BasicMutableWorld per world ID (the harness's own
// ingest.Worlds, so that changes are applied to a non-overlay world as well).
type c26basicWorlds struct {
	mu sync.Mutex
	ws map[b6.FeatureID]ingest.MutableWorld
	mk func() ingest.MutableWorld
}

func (b *c26basicWorlds) FindOrCreateWorld(id b6.FeatureID) ingest.MutableWorld {
	if !id.IsValid() {
		id = ingest.DefaultWorldFeatureID
	}
	b.mu.Lock()
	defer b.mu.Unlock()
	if w, ok := b.ws[id]; ok {
		return w
	}
	if b.ws == nil {
		b.ws = map[b6.FeatureID]ingest.MutableWorld{}
	}
	w := b.mk()
	b.ws[id] = w
	return w
}
func (b *c26basicWorlds) ListWorlds() []b6.FeatureID {
	b.mu.Lock()
	defer b.mu.Unlock()
	var ids []b6.FeatureID
	for id := range b.ws {
		ids = append(ids, id)
	}
	return ids
}
func (b *c26basicWorlds) DeleteWorld(id b6.FeatureID) {
	b.mu.Lock()
	defer b.mu.Unlock()
	delete(b.ws, id)
}

type c26change struct {
	kind     string
	expr     b6.Expression
	ids      []b6.FeatureID // IDs a successful application modifies (by construction); nil = not asserted
	mustFail bool           // applying the change fails by construction (a tag is added to a feature that does not exist)
	mentions []b6.FeatureID // extra IDs to probe
	// post, if set, is what a caller who was told "applied" can rely on, whatever the twin says:
	// it returns "" if it holds in w and a description otherwise
	post func(w b6.World) string
}

func c26idSet(ids []b6.FeatureID) string {
	m := map[string]bool{}
	for _, id := range ids {
		m[id.String()] = true
	}
	var ss []string
	for s := range m {
		ss = append(ss, s)
	}
	sort.Strings(ss)
	return strings.Join(ss, " ")
}

func c26collIDs(c b6.UntypedCollection) (keys, values []b6.FeatureID, err error) {
	i := c.BeginUntyped()
	for {
		ok, e := i.Next()
		if e != nil {
			return nil, nil, e
		}
		if !ok {
			return
		}
		k, ok1 := i.Key().(b6.FeatureID)
		v, ok2 := i.Value().(b6.FeatureID)
		if !ok1 || !ok2 {
			return nil, nil, fmt.Errorf("item (%T,%T) is not a pair of feature IDs", i.Key(), i.Value())
		}
		keys = append(keys, k)
		values = append(values, v)
	}
}

const c26geoPoint = `{"type":"Feature","geometry":{"type":"Point","coordinates":[-0.1251,51.5351]},"properties":{"name":"gp"}}`
const c26geoLine = `{"type":"Feature","geometry":{"type":"LineString","coordinates":[[-0.1251,51.5351],[-0.1249,51.5353],[-0.1247,51.5355]]},"properties":{"highway":"path"}}`
const c26geoLine1 = `{"type":"Feature","geometry":{"type":"LineString","coordinates":[[-0.1251,51.5351]]},"properties":{}}`
const c26geoPolygon = `{"type":"Feature","geometry":{"type":"Polygon","coordinates":[[[-0.1251,51.5351],[-0.1241,51.5351],[-0.1246,51.5359],[-0.1251,51.5351]]]},"properties":{"building":"yes"}}`

func c26collection(features ...string) string {
	return `{"type":"FeatureCollection","features":[` + strings.Join(features, ",") + `]}`
}

// c26gen draws one change request. present/absent are feature IDs that exist /
// do not exist in the world the request is evaluated against.
// c26addTag: add-tag on a feature that exists, with what the caller can rely on afterwards.
func c26addTag(id b6.FeatureID, k, v string) c26change {
	return c26change{kind: "add-tag:present", expr: xCall("add-tag", xID(id), xTag(k, v)), ids: []b6.FeatureID{id},
		post: func(w b6.World) string {
			f := w.FindFeatureByID(id)
			if f == nil {
				return fmt.Sprintf("%s is not in the world", id)
			}
			if t := f.Get(k); !t.IsValid() || t.Value.String() != v {
				return fmt.Sprintf("%s has %s=%q, the tag added was %s=%q", id, k, t.Value, k, v)
			}
			return ""
		}}
}

func c26gen(r *core.R, c *core.Ctx, present []b6.FeatureID, depth int) c26change {
	uniq := func() string { return fmt.Sprintf("v%d", r.Intn(1000000)) }
	keys := []string{"#amenity", "name", "#highway", "building:levels", "#verif", "verif:plain"}
	absentIDs := []b6.FeatureID{fPointID(900 + uint64(r.Intn(5))), fPathID(901), fAreaID(902), fRelationID(903), fCollectionID(904),
		{Type: b6.FeatureTypePoint, Namespace: "other.ns", Value: 1}}
	invalidIDs := map[b6.FeatureType]b6.FeatureID{
		b6.FeatureTypePoint:      {Type: b6.FeatureTypePoint, Namespace: "", Value: 7},
		b6.FeatureTypeRelation:   {Type: b6.FeatureTypeRelation, Namespace: "", Value: 7},
		b6.FeatureTypeCollection: {Type: b6.FeatureTypeCollection, Namespace: "", Value: 7},
	}
	tagsColl := func() b6.Expression {
		// distinct keys: a feature created with the same key twice makes Tags.RemoveTag panic
		// (it deletes from the slice it ranges over), which is a defect of the tag list (C39's
		// subject, reported separately), not of the reporting paths checked here
		n := r.Intn(3)
		var kv []b6.Expression
		for i, k := range r.Perm(len(keys))[:n] {
			kv = append(kv, xInt(i), xTag(keys[k], uniq()))
		}
		return xPairs(kv...)
	}
	nkinds := 12
	if depth > 0 {
		nkinds = 10 // no nested merges
	}
	switch r.Intn(nkinds) {
	case 0: // add-tag, present feature
		id := core.Pick(r, present)
		c.Count("gen_add_tag_present")
		v := uniq()
		if r.Chance(0.15) {
			v = "" // a tag that is present with an empty value is not an absent tag
			c.Count("gen_add_tag_empty_value")
		}
		return c26addTag(id, core.Pick(r, keys), v)
	case 1: // add-tag, absent feature
		id := core.Pick(r, absentIDs)
		c.Count("gen_add_tag_absent")
		return c26change{kind: "add-tag:absent", expr: xCall("add-tag", xID(id), xTag(core.Pick(r, keys), uniq())), mentions: []b6.FeatureID{id}, mustFail: true}
	case 2: // remove-tag, present feature (key present or not)
		id := core.Pick(r, present)
		k := core.Pick(r, keys)
		return c26change{kind: "remove-tag:present", expr: xCall("remove-tag", xID(id), xStr(k)), ids: []b6.FeatureID{id},
			post: func(w b6.World) string {
				if f := w.FindFeatureByID(id); f == nil {
					return fmt.Sprintf("%s is not in the world", id)
				} else if t := f.Get(k); t.IsValid() {
					return fmt.Sprintf("%s still has %s=%q", id, k, t.Value)
				}
				return ""
			}}
	case 3: // remove-tag, absent feature
		id := core.Pick(r, absentIDs)
		c.Count("gen_remove_tag_absent")
		return c26change{kind: "remove-tag:absent", expr: xCall("remove-tag", xID(id), xStr(core.Pick(r, keys))), mentions: []b6.FeatureID{id}}
	case 4: // add-tags over several features, possibly with an absent one in the middle
		n := r.Range(1, 3)
		var kv []b6.Expression
		var ids []b6.FeatureID
		bad := false
		for i := 0; i < n; i++ {
			id := core.Pick(r, present)
			if r.Chance(0.25) {
				id = core.Pick(r, absentIDs)
				bad = true
			}
			ids = append(ids, id)
			kv = append(kv, xID(id), xTag(core.Pick(r, keys), uniq()))
		}
		ch := c26change{kind: "add-tags", expr: xCall("add-tags", xPairs(kv...)), mentions: ids}
		if !bad {
			ch.ids = ids
		} else {
			ch.kind = "add-tags:with-absent"
			ch.mustFail = true
		}
		return ch
	case 5: // remove-tags
		n := r.Range(1, 3)
		var kv []b6.Expression
		var ids []b6.FeatureID
		bad := false
		for i := 0; i < n; i++ {
			id := core.Pick(r, present)
			if r.Chance(0.25) {
				id = core.Pick(r, absentIDs)
				bad = true
			}
			ids = append(ids, id)
			kv = append(kv, xID(id), xStr(core.Pick(r, keys)))
		}
		ch := c26change{kind: "remove-tags", expr: xCall("remove-tags", xPairs(kv...)), mentions: ids}
		if !bad {
			ch.ids = ids
		} else {
			ch.kind = "remove-tags:with-absent"
		}
		return ch
	case 6: // add-point
		id := fPointID(100 + uint64(r.Intn(4)))
		kind := "add-point"
		switch r.Intn(4) {
		case 0:
			id = invalidIDs[b6.FeatureTypePoint]
			kind = "add-point:invalid-id"
			c.Count("gen_invalid_id")
		case 1:
			id = fPointID(uint64(r.Range(1, 8))) // replaces an existing point (may be used by paths)
			kind = "add-point:replace"
		}
		ch := c26change{kind: kind, expr: xCall("add-point", xLL(51.5350+r.Float()*0.002, -0.1255+r.Float()*0.002), xID(id), tagsColl()), mentions: []b6.FeatureID{id}}
		if kind == "add-point" {
			ch.ids = []b6.FeatureID{id}
		}
		return ch
	case 7: // add-relation
		id := fRelationID(100 + uint64(r.Intn(3)))
		kind := "add-relation"
		if r.Chance(0.3) {
			id = invalidIDs[b6.FeatureTypeRelation]
			kind = "add-relation:invalid-id"
			c.Count("gen_invalid_id")
		}
		var members []b6.Expression
		for i, n := 0, r.Intn(3); i < n; i++ {
			m := core.Pick(r, present)
			if r.Chance(0.2) {
				m = core.Pick(r, absentIDs)
			}
			members = append(members, xID(m), xStr(core.Pick(r, []string{"", "outer", "stop"})))
		}
		ch := c26change{kind: kind, expr: xCall("add-relation", xID(id), tagsColl(), xPairs(members...)), mentions: []b6.FeatureID{id}}
		if kind == "add-relation" {
			ch.ids = []b6.FeatureID{id}
		}
		return ch
	case 8: // add-collection
		id := fCollectionID(100 + uint64(r.Intn(3)))
		kind := "add-collection"
		if r.Chance(0.3) {
			id = invalidIDs[b6.FeatureTypeCollection]
			kind = "add-collection:invalid-id"
			c.Count("gen_invalid_id")
		}
		var items []b6.Expression
		for i, n := 0, r.Intn(3); i < n; i++ {
			items = append(items, xStr(fmt.Sprintf("k%d", i)), xInt(r.Intn(10)))
		}
		ch := c26change{kind: kind, expr: xCall("add-collection", xID(id), tagsColl(), xPairs(items...)), mentions: []b6.FeatureID{id}}
		if kind == "add-collection" {
			ch.ids = []b6.FeatureID{id}
		}
		return ch
	case 9: // import-geojson
		ns := "verif.test/geo"
		mk := func(t b6.FeatureType, v uint64) b6.FeatureID {
			return b6.FeatureID{Type: t, Namespace: b6.Namespace(ns), Value: v}
		}
		var doc, kind string
		var ids []b6.FeatureID
		switch r.Intn(6) {
		case 0:
			doc, kind, ids = c26geoPoint, "import-geojson:point", []b6.FeatureID{mk(b6.FeatureTypePoint, 0)}
		case 1:
			doc, kind, ids = c26geoLine, "import-geojson:line", []b6.FeatureID{mk(b6.FeatureTypePath, 0)}
		case 2:
			doc, kind = c26geoLine1, "import-geojson:line-1-point"
			c.Count("gen_geojson_1_point_line")
		case 3:
			doc, kind, ids = c26geoPolygon, "import-geojson:polygon", []b6.FeatureID{mk(b6.FeatureTypeArea, 0)}
		case 4:
			doc, kind = c26collection(c26geoPoint, c26geoLine, c26geoPolygon), "import-geojson:collection"
			ids = []b6.FeatureID{mk(b6.FeatureTypePoint, 0), mk(b6.FeatureTypePath, 1), mk(b6.FeatureTypeArea, 2)}
		case 5:
			doc, kind = c26collection(c26geoPoint, c26geoLine1, c26geoPolygon), "import-geojson:collection-with-1-point-line"
			c.Count("gen_geojson_1_point_line")
		}
		mentions := []b6.FeatureID{mk(b6.FeatureTypePoint, 0), mk(b6.FeatureTypePath, 0), mk(b6.FeatureTypePath, 1), mk(b6.FeatureTypeArea, 0), mk(b6.FeatureTypeArea, 2)}
		return c26change{kind: kind, expr: xCall("import-geojson", xCall("parse-geojson", xStr(doc)), xStr(ns)), ids: ids, mentions: mentions}
	default: // merge-changes of 1..3 parts
		n := r.Range(1, 3)
		var kv []b6.Expression
		ch := c26change{kind: "merge-changes"}
		allKnown := true
		for i := 0; i < n; i++ {
			part := c26gen(r, c, present, depth+1)
			kv = append(kv, xInt(i), part.expr)
			ch.mentions = append(ch.mentions, part.mentions...)
			ch.mentions = append(ch.mentions, part.ids...)
			if part.ids == nil {
				allKnown = false
			} else {
				ch.ids = append(ch.ids, part.ids...)
			}
			ch.kind += "+" + part.kind
		}
		if !allKnown {
			ch.ids = nil
		}
		ch.expr = xCall("merge-changes", xPairs(kv...))
		c.Count("gen_merge")
		return ch
	}
}

func init() {
	fs := functions.Functions()
	adaptors := functions.Adaptors()
	core.Register(&core.Monitor{
		ID:        "C26",
		Title:     "Callers are told whether their change was applied",
		Technique: "differential twin world: the change value applied directly to an identical world decides failed?/modified IDs/world afterwards",
		Rule: "case = (world kind: overlay over small basic | overlay over empty | plain basic; 0-3 earlier edits (tag edits and points added again as they are); one change request drawn from add-tag/remove-tag " +
			"on present and absent features, add-tags/remove-tags with an absent feature among them, add-point/add-relation/add-collection with valid, replacing and invalid IDs, " +
			"import-geojson of point/line/1-point line/polygon/collections, merge-changes of 1-3 such parts; path: grpc service.Evaluate | Evaluator.EvaluateExpression | Evaluator.EvaluateProto); " +
			"distinct = distinct (world kind, earlier edits, request expression, path); non-trivial = the request evaluated to a change value on the twin",
		Assumptions: []string{"ingest.Change.Apply on the twin world is the reference for whether applying fails and for the world afterwards",
			"api.Evaluate on the twin yields the same change value as the evaluation inside the code under test"},
		Quick: 3000, Thorough: 600000,
		Required: []string{"must_fail_by_construction", "twin_failed", "twin_ok", "path_grpc", "path_evaluator", "failed_and_reported", "ok_and_ids_checked", "ok_and_postcondition_checked", "pre_readd_point", "directed_edit_readd_edit", "gen_add_tag_empty_value", "merge_failed"},
		Run: func(c *core.Ctx) {
			r := c.R
			worldKind := r.Intn(3)
			mkWorlds := func() ingest.Worlds {
				switch worldKind {
				case 0:
					return &ingest.MutableWorlds{Base: fSmallBasicWorld()}
				case 1:
					return &ingest.MutableWorlds{Base: ingest.NewBasicMutableWorld()}
				default:
					return &c26basicWorlds{mk: func() ingest.MutableWorld { return fSmallBasicWorld() }}
				}
			}
			a, b := mkWorlds(), mkWorlds()
			root := b6.FeatureIDInvalid
			if r.Chance(0.3) {
				root = fCollectionID(77)
			}
			wa, wb := a.FindOrCreateWorld(root), b.FindOrCreateWorld(root)
			present := fSmallIDs()
			if worldKind == 1 {
				present = nil
				// the empty base gets its features through the overlay
				for _, f := range fSmallFeatures()[:8] {
					if err := wa.AddFeature(f); err != nil {
						panic(err)
					}
					if err := wb.AddFeature(f.Clone()); err != nil {
						panic(err)
					}
					present = append(present, f.FeatureID())
				}
			}
			// earlier edits, applied identically and directly to both worlds
			var script []string
			for i, n := 0, r.Intn(4); i < n; i++ {
				if r.Chance(0.3) {
					// a feature of the world added again as it is (as add-point with the same id and place does)
					var again []ingest.Feature
					for _, f := range fSmallFeatures()[:8] {
						if f.FeatureID().Type == b6.FeatureTypePoint {
							again = append(again, f)
						}
					}
					f := core.Pick(r, again)
					if wa.HasFeatureWithID(f.FeatureID()) {
						ea, eb := wa.AddFeature(f.Clone()), wb.AddFeature(f.Clone())
						if (ea == nil) != (eb == nil) {
							panic("harness: twin worlds diverged during setup")
						}
						script = append(script, fmt.Sprintf("pre:re-add %s", f.FeatureID()))
						c.Count("pre_readd_point")
					}
					continue
				}
				id := core.Pick(r, present)
				tag := fStrTag(core.Pick(r, []string{"#amenity", "name", "verif:plain"}), fmt.Sprintf("e%d", i))
				ea, eb := wa.AddTag(id, tag), wb.AddTag(id, tag)
				if (ea == nil) != (eb == nil) {
					panic("harness: twin worlds diverged during setup")
				}
				script = append(script, fmt.Sprintf("pre:add-tag %s %s", id, tag))
			}
			ch := c26gen(r, c, present, 0)
			if c.Index%6 == 4 && worldKind != 2 {
				// directed history: a tag edit on a feature, then a feature it refers to is added
				// again (which pulls the referrer into the overlay), then the request edits the
				// referrer's tags once more
				x := core.Pick(r, []struct {
					id  b6.FeatureID
					dep uint64
				}{{fPathID(1), 1}, {fPathID(1), 2}, {fPathID(3), 7}, {fPathID(2), 4}})
				if wa.HasFeatureWithID(x.id) && wa.HasFeatureWithID(fPointID(x.dep)) {
					k1 := core.Pick(r, []string{"name", "verif:plain", "#amenity"})
					tag := fStrTag(k1, "h0")
					ea, eb := wa.AddTag(x.id, tag), wb.AddTag(x.id, tag)
					var dep ingest.Feature
					for _, f := range fSmallFeatures() {
						if f.FeatureID() == fPointID(x.dep) {
							dep = f
						}
					}
					fa, fb := wa.AddFeature(dep.Clone()), wb.AddFeature(dep.Clone())
					if (ea == nil) != (eb == nil) || (fa == nil) != (fb == nil) {
						panic("harness: twin worlds diverged during setup")
					}
					script = append(script, fmt.Sprintf("pre:add-tag %s %s", x.id, tag), fmt.Sprintf("pre:re-add %s", dep.FeatureID()))
					ch = c26addTag(x.id, core.Pick(r, []string{"name", "verif:plain", "building:levels", "#highway"}), fmt.Sprintf("h%d", r.Intn(1000)))
					c.Count("directed_edit_readd_edit")
				}
			}
			path := r.Intn(3)
			pathName := []string{"grpc", "EvaluateExpression", "EvaluateProto"}[path]
			desc := "(unprintable)"
			core.Protect(func() { desc = ch.expr.String() })
			c.Key("w%d root=%v %s | %s | %s", worldKind, root.IsValid(), strings.Join(script, ";"), desc, pathName)
			probe := append(append(append([]b6.FeatureID{}, fSmallIDs()...), ch.mentions...), ch.ids...)
			witness := map[string]any{"world": []string{"overlay-over-small", "overlay-over-empty", "basic"}[worldKind], "pre": script, "request": desc, "kind": ch.kind, "path": pathName}
			if c.Index < 3 {
				c.Sample(witness)
			}

			// The request as the server sees it: through the wire format (points are
			// carried at E7, so the twin must start from the decoded request too).
			p, err := ch.expr.ToProto()
			if err != nil {
				panic("harness: request does not convert to a proto: " + err.Error())
			}
			decoded, err := b6.ExpressionFromProto(p)
			if err != nil {
				panic("harness: request proto does not decode: " + err.Error())
			}
			ch.expr = decoded

			// ---- twin
			tctx := api.Context{World: wb, Worlds: b, FunctionSymbols: fs, Adaptors: adaptors, Context: context.Background()}
			tctx.FillFromOptions(&api.Options{Cores: 1})
			tv, terr := api.Evaluate(api.Simplify(ch.expr, fs), &tctx)
			if terr != nil {
				// the request does not evaluate to a change at all: generator bug, not a finding
				c.Inconclusive(fmt.Sprintf("generated request %q does not evaluate on the twin: %v", desc, terr))
				return
			}
			tchange, ok := tv.(ingest.Change)
			if !ok {
				c.Inconclusive(fmt.Sprintf("generated request %q evaluated to %T, not a change", desc, tv))
				return
			}
			c.Nontrivial()
			tmod, tapplyErr := tchange.Apply(wb)
			twinFailed := tapplyErr != nil
			var twinIDs []b6.FeatureID
			if !twinFailed {
				c.Count("twin_ok")
				ks, vs, err := c26collIDs(tmod)
				if err != nil {
					panic("harness: twin modified collection: " + err.Error())
				}
				twinIDs = append(ks, vs...)
			} else {
				c.Count("twin_failed")
				if strings.HasPrefix(ch.kind, "merge-changes") {
					c.Count("merge_failed")
				}
			}
			witness["twin_error"] = fmt.Sprint(tapplyErr)

			// ---- code under test
			request := &pb.EvaluateRequestProto{Request: p, Version: b6.ApiVersion}
			if root.IsValid() {
				request.Root = b6.NewProtoFromFeatureID(root)
			}
			var lock sync.RWMutex
			var gotErr error
			var gotKeys, gotValues []b6.FeatureID
			shape := ""
			switch path {
			case 0:
				c.Count("path_grpc")
				service := b6grpc.NewB6Service(a, api.Options{Cores: 1}, &lock)
				response, err := service.Evaluate(context.Background(), request)
				gotErr = err
				if err == nil {
					e, perr := b6.ExpressionFromProto(response.GetResult())
					if perr != nil {
						shape = "response does not decode: " + perr.Error()
					} else if ce, ok := e.AnyExpression.(b6.CollectionExpression); !ok {
						shape = fmt.Sprintf("response is a %T, not a collection of IDs", e.AnyExpression)
					} else if gotKeys, gotValues, perr = c26collIDs(ce.UntypedCollection); perr != nil {
						shape = "response: " + perr.Error()
					}
				}
			default:
				c.Count("path_evaluator")
				ev := api.Evaluator{Worlds: a, FunctionSymbols: fs, Adaptors: adaptors, Options: api.Options{Cores: 1}, Lock: &lock}
				lock.RLock() // the UI handlers call the evaluator holding the read lock
				var v interface{}
				if path == 1 {
					v, gotErr = ev.EvaluateExpression(ch.expr, root)
				} else {
					v, gotErr = ev.EvaluateProto(request)
				}
				lock.RUnlock()
				if gotErr == nil {
					if ac, ok := v.(*api.AppliedChange); !ok {
						shape = fmt.Sprintf("result is a %T, not an *AppliedChange", v)
					} else {
						var perr error
						if gotKeys, gotValues, perr = c26collIDs(ac.Modified); perr != nil {
							shape = "AppliedChange.Modified: " + perr.Error()
						}
					}
				}
			}
			if !lock.TryLock() {
				c.Violate(pathName+":lock-left-held", witness, "after %s returned, the service lock cannot be taken for writing", pathName)
			} else {
				lock.Unlock()
			}
			witness["got_error"] = fmt.Sprint(gotErr)
			// ---- compare
			if ch.mustFail {
				// independent of the twin (which runs the same Apply code): the change names a feature that does not exist
				c.Count("must_fail_by_construction")
				if !twinFailed {
					c.Violate("apply:succeeded-on-absent-feature:"+ch.kind, witness, "%s: applying the change directly succeeded although it adds a tag to a feature that does not exist", desc)
				}
				if gotErr == nil {
					c.Violate(pathName+":failed-change-reported-as-success:by-construction", witness,
						"%s: the change adds a tag to a feature that does not exist, but %s returned no error (ids %s)", desc, pathName, c26idSet(gotKeys))
				}
			}
			switch {
			case twinFailed && gotErr == nil:
				c.Violate(pathName+":failed-change-reported-as-success", witness,
					"%s: applying the change fails on the twin (%v) but %s returned no error (ids %s)", desc, tapplyErr, pathName, c26idSet(gotKeys))
			case !twinFailed && gotErr != nil:
				c.Violate(pathName+":applied-change-reported-as-error", witness,
					"%s: applying the change succeeds on the twin but %s returned the error %v", desc, pathName, gotErr)
			case twinFailed:
				c.Count("failed_and_reported")
			default:
				if shape != "" {
					c.Violate(pathName+":result-shape", witness, "%s: %s", desc, shape)
					break
				}
				got := c26idSet(append(append([]b6.FeatureID{}, gotKeys...), gotValues...))
				if want := c26idSet(twinIDs); got != want {
					c.Violate(pathName+":wrong-ids", witness, "%s: %s returned the IDs {%s}, the twin application modified {%s}", desc, pathName, got, want)
				}
				if ch.post != nil {
					c.Count("ok_and_postcondition_checked")
					if d := ch.post(wa); d != "" {
						c.Violate(pathName+":reported-applied-but-not-in-the-world:"+ch.kind, witness, "%s: %s reported success, but afterwards %s", desc, pathName, d)
					}
				}
				if ch.ids != nil {
					c.Count("ok_and_ids_checked")
					if want := c26idSet(ch.ids); got != want {
						c.Violate(pathName+":wrong-ids", witness, "%s: %s returned the IDs {%s}, the change modifies {%s} by construction", desc, pathName, got, want)
					}
				}
			}
			// the world afterwards
			wa2 := a.FindOrCreateWorld(root)
			if wa2 != wa {
				c.Violate(pathName+":world-replaced", witness, "%s: the world object of the root changed during the request", desc)
			}
			if da, db := fDump(wa2, probe), fDump(wb, probe); da != db {
				state := "applied"
				if twinFailed {
					state = "failed"
				}
				c.Violate(pathName+":world-differs-after-"+state+"-change", witness, "%s: world after %s differs from the twin world:\n%s", desc, pathName, c26diff(da, db))
			}
		},
	})
}

func c26diff(a, b string) string {
	la, lb := strings.Split(a, "\n"), strings.Split(b, "\n")
	var sb strings.Builder
	for i := 0; i < len(la) && i < len(lb); i++ {
		if la[i] != lb[i] {
			sb.WriteString("  got  " + la[i] + "\n  twin " + lb[i] + "\n")
		}
	}
	return sb.String()
}
