#!/bin/bash
# ./seeded_run_wt.sh <seeded dir> <Cnn> [tier]  like seeded_run.sh, but against a scratch worktree of /repo main
# (development only: leaves /repo untouched, so it can run while other checks use /repo). Overwrites evidence/<Cnn>.json:
# rerun ./check <Cnn> on /repo afterwards.
D=$1; ID=$2; TIER=${3:-quick}
WT=/tmp/srun-$(basename $D)
git -C /repo worktree remove --force $WT 2>/dev/null
git -C /repo worktree add -q --detach $WT main || exit 2
( cd $WT && git apply $D/patch.diff ) || { echo "PATCH DOES NOT APPLY"; git -C /repo worktree remove --force $WT; exit 2; }
cd "$(dirname "$0")"
VERIF_REPO=$WT ./check $ID $TIER; rc=$?
git -C /repo worktree remove --force $WT
rm -f .bin/vmon*$(printf %s "$WT" | tr -c "a-zA-Z0-9" _)* 2>/dev/null
if [ $rc = 1 ]; then echo "CAUGHT (exit 1)"; elif [ $rc = 0 ]; then echo "MISSED (exit 0)"; else echo "INCONCLUSIVE/BUILD (exit $rc)"; fi
