#!/usr/bin/env python3
"""tools_affected.py <module dir> <patch.diff>: print the packages of the module whose tests can be affected by the patch
(the touched packages and every package that imports one of them, directly or transitively, in its code or its tests)."""
import json,subprocess,sys,re,os
mod,patch=sys.argv[1:3]
touched=set()
for m in re.finditer(r'^\+\+\+ b/(\S+)',open(patch).read(),re.M):
    d=os.path.dirname(m.group(1))
    d=d.replace('src/diagonal.works/b6','diagonal.works/b6')
    touched.add(d)
out=subprocess.run(['go','list','-e','-json','./...'],cwd=mod,capture_output=True,text=True).stdout
dec=json.JSONDecoder(); i=0; pkgs={}
while i<len(out):
    while i<len(out) and out[i].isspace(): i+=1
    if i>=len(out): break
    o,j=dec.raw_decode(out,i); i=j
    pkgs[o['ImportPath']]=o
def deps(p):
    o=pkgs.get(p,{})
    s=set(o.get('Deps') or [])
    for t in (o.get('TestImports') or [])+(o.get('XTestImports') or []):
        s.add(t); s|=set(pkgs.get(t,{}).get('Deps') or [])
    s.add(p)
    return s
res=[p for p in sorted(pkgs) if deps(p)&touched and 'gdal' not in p and '/cmd/' not in p]
print(' '.join(res))
