#!/bin/bash
# ./seeded_run.sh <dir with patch.diff> <Cnn> [tier]   apply a seeded change to /repo, run the check, undo it.
# Prints the check's verdict line; exit 0 if the check reported a VIOLATION (= caught), 1 if missed.
set -u
D=$1; ID=$2; TIER=${3:-quick}
cd /repo || exit 2
if [ -n "$(git status --porcelain)" ]; then echo "/repo is not clean"; exit 2; fi
git apply "$D/patch.diff" || { echo "patch does not apply"; exit 2; }
OUT=$(cd /verif && ./check "$ID" "$TIER" 2>&1)
RC=$?
git -C /repo checkout -- . 
echo "$OUT" | grep -E "signature|VIOLATION|BUILD FAILED|^$ID " | cut -c1-400 | head -12
if echo "$OUT" | grep -q "^VIOLATION property=$ID"; then echo "CAUGHT (exit $RC)"; exit 0; fi
echo "MISSED (exit $RC)"; exit 1
